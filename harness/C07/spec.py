"""C07 obligations (DESIGN.md C07)."""
OBLIGATIONS = [
    dict(name="pbind_q_ls", subst={"pbind.c": [("#define BufferSize 8192", "#define BufferSize 16")]}, src="pbind.c", include=["pbind.c", "toolutils.c"], defs=["STRINGSIZE=16", "CF_L=2", "RKINDS=16"],
         functions=["pbind.c:OpenTarget", "pbind.c:ProcessFile", "pbind.c:CloseTarget", "toolutils.c:ReadRecordHeader", "toolutils.c:WriteRecordHeader",
                    "toolutils.c:SkipRecord", "toolutils.c:FilterOK", "toolutils.c:Granularity"],
         bounds="2 records x <= 2 payload bytes, kinds fixed (long + short form), any CPU/segment/granularity/start, -f list <= 2",
         unwind=14, unwind_fn={"cf_load": 40, "cf_build": 8, "harness": 8, "ProcessFile": 7, "vf_fread": 8, "vf_fwrite": 14}, timeout=1700, mem_gb=28,
         assumes=["stdio replaced by the memory-file model", "option parsing not executed; filter statics set directly", "errno == 0 on entry (no stale I/O error)", "pbind copy buffer shrunk from 8192 to 16 bytes"]),
    dict(name="pbind_q_xl", subst={"pbind.c": [("#define BufferSize 8192", "#define BufferSize 16")]}, src="pbind.c", include=["pbind.c", "toolutils.c"], defs=["STRINGSIZE=16", "CF_L=2", "RKINDS=4"],
         functions=["pbind.c:OpenTarget", "pbind.c:ProcessFile", "pbind.c:CloseTarget", "toolutils.c:ReadRecordHeader", "toolutils.c:WriteRecordHeader",
                    "toolutils.c:SkipRecord", "toolutils.c:FilterOK", "toolutils.c:Granularity"],
         bounds="2 records x <= 2 payload bytes, kinds fixed ($82 record + long form), any CPU/segment/granularity/start, -f list <= 2",
         unwind=14, unwind_fn={"cf_load": 40, "cf_build": 8, "harness": 8, "ProcessFile": 7, "vf_fread": 8, "vf_fwrite": 14}, timeout=1700, mem_gb=28,
         assumes=["stdio replaced by the memory-file model", "option parsing not executed; filter statics set directly", "errno == 0 on entry (no stale I/O error)", "pbind copy buffer shrunk from 8192 to 16 bytes"]),
    dict(name="pbind_r2", tier="thorough", subst={"pbind.c": [("#define BufferSize 8192", "#define BufferSize 16")]}, src="pbind.c", include=["pbind.c", "toolutils.c"], defs=["STRINGSIZE=16"],
         functions=["pbind.c:OpenTarget", "pbind.c:ProcessFile", "pbind.c:CloseTarget", "toolutils.c:ReadRecordHeader", "toolutils.c:WriteRecordHeader",
                    "toolutils.c:SkipRecord", "toolutils.c:FilterOK", "toolutils.c:Granularity"],
         bounds="2 records x <= 2 payload bytes of every kind (long, short, entry, $82, absent), any CPU/segment/granularity/start, -f list <= 2",
         unwind=14, unwind_fn={"cf_load": 40, "cf_build": 8, "harness": 8, "ProcessFile": 7, "vf_fread": 8, "vf_fwrite": 14}, timeout=1700, mem_gb=28,
         assumes=["stdio replaced by the memory-file model", "option parsing not executed; filter statics set directly", "errno == 0 on entry (no stale I/O error)", "pbind copy buffer shrunk from 8192 to 16 bytes"]),
    dict(name="plist_r1", tier="experimental", src="plist.c", include=["plist.c", "toolutils.c"], units=["addrspace.c"], stubs=["fmt_off.c"], defs=["STRINGSIZE=16", "CF_R=1", "CF_L=2"],
         functions=["plist.c:main", "plist.c:ProcessSingle", "toolutils.c:ReadRecordHeader", "toolutils.c:SkipRecord", "toolutils.c:Granularity"],
         bounds="1 record x <= 2 payload bytes (long, short, entry, absent), any CPU/segment/granularity/start",
         unwind=14, object_bits=14, unwind_fn={"cf_load": 40, "cf_build": 8, "harness": 16, "plist_main": 16, "ProcessSingle": 7, "vp_vfprintf": 48}, timeout=1700, mem_gb=28,
         assumes=["stdio replaced by the memory-file model; stdout through the printf monitor (libc rendering of %X/%u/%s trusted)",
                  "initialisation (NLS, message catalogues) and option parsing cut; FindFamilyById returns known/unknown arbitrarily"]),
]
for _k in range(4):
    OBLIGATIONS.append(
    dict(name="plist_lines_" + ["ll", "sl", "ls", "ss"][_k], src="plist1.c", include=["plist.c", "toolutils.c"], units=["addrspace.c", "bpemu.c"], stubs=["fmt_off.c"], defs=["STRINGSIZE=16", "CF_R=2", "CF_L=4", "RKINDS=%d" % _k], cuts={"toolutils.c": ["ReadRelocInfo", "DestroyRelocInfo"], "bpemu.c": ["FileSize"]},
         functions=["plist.c:ProcessSingle", "toolutils.c:ReadRecordHeader", "toolutils.c:Granularity"],
         bounds="2 data records (forms long/short fixed per obligation) x 0..4 payload bytes (whole address units, incl. empty records), any CPU/segment/granularity 1,2,4/start",
         unwind=14, unwind_fn={"cf_load": 40, "cf_build": 8, "harness": 16, "ProcessSingle": 6, "vp_vfprintf": 48}, timeout=1200, mem_gb=16, object_bits=13,
         assumes=["stdio replaced by the memory-file model; stdout through the printf monitor into an online checker (libc rendering of %X/%s trusted)",
                  "message catalogue texts empty, family look-up always succeeds", "main() (option parsing, summary printing) not executed: totals checked in Sums[]"]))
META = dict(outside=["more than one input file", "records longer than 3 bytes (length enters only the copy loop trip count)", "relocation-info records in plist"],
            assumptions=["malloc never fails"])
