/* C07-K3: PLIST ProcessSingle() (plist.c) on a code file of CF_R data records built from symbolic fields.
 * stdout goes through the printf monitor into an ONLINE checker (scalar state, no event arrays): per data record
 * the strings family / segment and the numbers start (%08lX), byte length (%04X), last address (%08lX) must be the
 * record's true values -- last address = start + length/granularity - 1, start - 1 for an empty record -- and the
 * per-segment totals must be the sums of the byte lengths.
 */
#include "vlib.h"
#include <stdio.h>
#include <stdlib.h>
#include "vfile.h"
#include "vprintf.h"
#ifndef CF_R
#define CF_R 2
#endif
#ifndef CF_L
#define CF_L 2
#endif
#include "cfbuild.h"
#ifndef RKINDS
#define RKINDS 0
#endif

static void vexit(int code);
#define exit(n) vexit(n)
#define fprintf vp_fprintf
#define printf vp_printf
#define putchar(c) vp_lit(stdout, (char)(c))
#define main plist_main
#include "src/toolutils.c"
#include "src/plist.c"
#undef main
#undef exit

char* getmessage(int n) { static char e[1]; (void)n; return e; }
char* catgetmessage(PMsgCat c, int n) { static char e[1]; (void)c; (void)n; return e; }
char* GetErrorMsg(int n) { static char e[1]; (void)n; return e; }
long FileSize(FILE* f) { return VF(f)->size; }
char const* Blanks(int n) { (void)n; return ""; }
static TFamilyDescr fam_known = { "FAM", 0x11, eHexFormatDefault };
PFamilyDescr FindFamilyById(Word Num) { (void)Num; return &fam_known; }

/* toolutils.c ReadRelocInfo is cut: the files built here hold no relocation-info record (the branch is infeasible, but the
   record header is read at a symbolic file position and symex would explore the table reader) */
PRelocInfo ReadRelocInfo(FILE* f) { (void)f; CHECK(0, "no relocation-info record in these files"); ASSUME(0); return NULL; }
void DestroyRelocInfo(PRelocInfo p) { (void)p; }

static VFILE src;
static char srcname[2] = "s";
static VFILE* vf_open_hook(const char* name, const char* mode) { (void)name; (void)mode; src.pos = 0; return &src; }
static void vexit(int code)
{
  (void)code;
  CHECK(0, "plist must not abort on a well-formed code file");
#ifdef REPLAY
  fflush(stdout); _Exit(1);
#else
  __CPROVER_assume(0);
#endif
}

/* ---- online monitor ---- */
static int nnum, nstr;
static unsigned rec_seg(int r) { return in_rkind[r] == 0 ? in_rseg[r] : SegCode; }
static unsigned rec_gran(int r) { return in_rkind[r] == 0 ? in_rgran[r] : Granularity(in_rcpu[r], SegCode); }
static void vp_lit(FILE* f, char c) { (void)f; (void)c; }
static void vp_num(FILE* f, char conv, int width, int zeropad, int longmod, unsigned long long val)
{
  int r = nnum / 3, k = nnum % 3;
  (void)f; (void)zeropad; (void)longmod;
  CHECK(r < CF_R, "three numeric fields per data record, nothing else");
  if (r < CF_R)
  {
    if (k == 0) CHECK(conv == 'X' && width == 8 && val == in_rstart[r], "start address of the record");
    else if (k == 1) CHECK(conv == 'X' && width == 4 && val == in_rlen[r], "byte length of the record");
    else
    {
      unsigned long long last = in_rlen[r] ? (unsigned long long)in_rstart[r] + in_rlen[r] / rec_gran(r) - 1 : (unsigned long long)in_rstart[r] - 1;
      CHECK(conv == 'X' && width == 8 && (val & 0xffffffffull) == (last & 0xffffffffull), "last address = start + length/granularity - 1 (start - 1 for an empty record)");
      if (in_rlen[r] == 0 && rec_gran(r) > 1) WITNESS("empty record of a word-granular segment");
    }
  }
  nnum++;
}
static void vp_str(FILE* f, const char* s, int width, int leftalign)
{
  int r = nstr / 2, k = nstr % 2;
  (void)f; (void)width; (void)leftalign;
  if (s[0] == 0) return;                           /* message catalogue texts are empty here */
  CHECK(r < CF_R, "two names per data record");
  if (r < CF_R)
  {
    if (k == 0) CHECK(s == fam_known.Name, "family name of the record's CPU id");
    else CHECK(s == SegNames[rec_seg(r)], "segment name of the record");
  }
  nstr++;
}

void harness(void)
{
  int r, k;
  unsigned long long sums[SegCount];
  cf_load();
  for (r = 0; r < CF_R; r++)
  {
    in_rkind[r] = (RKINDS >> r) & 1;               /* data records, long (0) or short (1) form: concrete per obligation, so that the file layout is concrete */
    ASSUME(in_rcpu[r] != 0 && (in_rkind[r] != 1 || in_rcpu[r] < 0x80));
    ASSUME(in_rseg[r] < SegCount);
    ASSUME(in_rgran[r] == 1 || in_rgran[r] == 2 || in_rgran[r] == 4);
    ASSUME(in_rlen[r] <= CF_L && in_rlen[r] % rec_gran(r) == 0);
  }
  cf_build();
  src.kind = VF_READ; src.data = cf_buf; src.size = cf_size; src.cap = CF_CAP;
  for (k = 0; k < SegCount; k++) { sums[k] = 0; Sums[k] = 0; }
  NumFiles = 1;
  ProcessSingle(srcname);
  CHECK(vp_unmodelled == 0, "every printf directive is modelled");
  CHECK(nnum == 3 * CF_R && nstr == 2 * CF_R, "one line per data record");
  for (r = 0; r < CF_R; r++) sums[rec_seg(r)] += in_rlen[r];
  for (k = 0; k < SegCount; k++) CHECK(Sums[k] == sums[k], "per-segment total = sum of the record lengths");
  WITNESS("end");
}
