/* C07-K2: PLIST -- the real main() of plist.c (initialisation and option parsing cut) with
 * ProcessSingle and the summary, on a code file built from symbolic records.
 * stdout goes through the printf monitor; checked: one line per record with the true
 * family / segment / start / byte length / last address, totals = sum of lengths and printed.
 */
#include "vlib.h"
#include <stdio.h>
#include <stdlib.h>
#include "vfile.h"
#include "vprintf.h"
#ifndef CF_R
#define CF_R 2
#endif
#ifndef CF_L
#define CF_L 2
#endif
#include "cfbuild.h"

static int exit_code = -1;
static void vexit(int code);
#define exit(n) vexit(n)
#define fprintf vp_fprintf
#define printf vp_printf
#define putchar(c) vp_lit(stdout, (char)(c))
#define main plist_main
#include "src/toolutils.c"
#include "src/plist.c"
#undef main
#undef exit

/* ---- environment ---- */
char* getmessage(int n) { static char e[1]; (void)n; return e; }
char* catgetmessage(PMsgCat c, int n) { static char e[1]; (void)c; (void)n; return e; }
char* GetErrorMsg(int n) { static char e[1]; (void)n; return e; }
long FileSize(FILE* f) { return VF(f)->size; }
void nls_init(void) {}
Boolean NLS_Initialize(int* argc, char** argv) { (void)argc; (void)argv; return True; }
void bpemu_init(void) {}
void strutil_init(void) {}
void nlmessages_init(char const* a, char* b, LongInt c, LongInt d) { (void)a; (void)b; (void)c; (void)d; }
void ioerrs_init(char* p) { (void)p; }
void cmdarg_init(char* p) { (void)p; }
void opencatalog(PMsgCat c, char const* a, char const* b, LongInt d, LongInt e) { (void)c; (void)a; (void)b; (void)d; (void)e; }
void ProcessCMD(int argc, char** argv, CMDRec const* pCMDRecs, int CMDRecCnt, CMDProcessed Unprocessed, char const* pEnvName, CMDErrCallback ErrProc)
{ (void)argc; (void)argv; (void)pCMDRecs; (void)CMDRecCnt; (void)pEnvName; (void)ErrProc; Unprocessed[1] = True; QuietMode = True; }
Boolean ProcessedEmpty(CMDProcessed Processed) { return !Processed[1]; }
char const* Blanks(int n) { (void)n; return ""; }
static TFamilyDescr fam_known = { "FAM", 0x11, eHexFormatDefault };
unsigned char in_famknown[CF_R];
static int cur_rec_for_fam;
PFamilyDescr FindFamilyById(Word Num) { (void)Num; return (in_famknown[cur_rec_for_fam < CF_R ? cur_rec_for_fam : CF_R - 1] & 1) ? &fam_known : NULL; }

static VFILE src;
static char srcname[2] = "s";
static VFILE* vf_open_hook(const char* name, const char* mode) { (void)name; (void)mode; src.pos = 0; return &src; }

static void vexit(int code)
{
  exit_code = code;
  CHECK(0, "plist must not abort on a well-formed code file");
#ifdef REPLAY
  fflush(stdout); _Exit(1);
#else
  __CPROVER_assume(0);
#endif
}

/* ---- monitor: per data record the numeric fields in order start(%08lX) len(%04X) end(%08lX);
        summary: one unsigned field per printed segment ---- */
#define MAXNUM 24
static unsigned long long num_val[MAXNUM]; static char num_conv[MAXNUM]; static int num_width[MAXNUM]; static int nnum;
static const char* str_val[MAXNUM]; static int nstr;
static int lits_u;     /* literal 'u' characters printed (the "%u" forgotten-percent signature) */
static int in_summary;

static void vp_lit(FILE* f, char c) { (void)f; if (in_summary && c == 'u') lits_u++; }
static void vp_num(FILE* f, char conv, int width, int zeropad, int longmod, unsigned long long val)
{ (void)f; (void)zeropad; (void)longmod; if (nnum < MAXNUM) { num_val[nnum] = val; num_conv[nnum] = conv; num_width[nnum] = width; } nnum++; if (conv == 'X' && width == 8 && !in_summary) cur_rec_for_fam = cur_rec_for_fam; }
static void vp_str(FILE* f, const char* s, int width, int leftalign) { (void)f; (void)width; (void)leftalign; if (nstr < MAXNUM) str_val[nstr] = s; nstr++; }

void harness(void)
{
  int r, k, ni = 0, si = 0;
  unsigned long long sums[SegCount];
  static char a0[6] = "plist"; static char* argv[3];
  cf_load(); LOADA(in_famknown, CF_R);
  for (r = 0; r < CF_R; r++)
  {
    ASSUME(in_rkind[r] <= 3);
    ASSUME(in_rcpu[r] != 0 && (in_rkind[r] != 1 || in_rcpu[r] < 0x80));   /* no CPU family has id 0 */
    ASSUME(in_rseg[r] < SegCount);
    ASSUME(in_rgran[r] == 1 || in_rgran[r] == 2 || in_rgran[r] == 4);
    ASSUME(in_rlen[r] <= CF_L);
  }
  /* the family look-up answer is per record in file order: make records with equal CPU agree */
  cf_build();
  src.kind = VF_READ; src.data = cf_buf; src.size = cf_size; src.cap = CF_CAP;
  argv[0] = a0; argv[1] = srcname; argv[2] = 0;
  for (k = 0; k < SegCount; k++) sums[k] = 0;

  /* FindFamilyById is asked once per data record, in order: advance the cursor from the monitor */
  cur_rec_for_fam = 0;
  while (cur_rec_for_fam < CF_R && in_rkind[cur_rec_for_fam] > 1) cur_rec_for_fam++;

  plist_main(2, argv);

  CHECK(vp_unmodelled == 0, "every printf directive is modelled");
  /* header lines: two printf("%s%s\n") -> 4 strings */
  si = 4;
  for (r = 0; r < CF_R; r++)
  {
    if (in_rkind[r] == 2)
    {
      CHECK(ni < nnum && num_conv[ni] == 'X' && num_width[ni] == 8 && num_val[ni] == in_rstart[r], "entry point line shows the entry address");
      ni++; si++;                       /* "%s%08lX\n" */
    }
    else if (in_rkind[r] <= 1)
    {
      unsigned seg = in_rkind[r] == 0 ? in_rseg[r] : SegCode, gran = in_rkind[r] == 0 ? in_rgran[r] : Granularity(in_rcpu[r], SegCode);
      unsigned long long last = in_rlen[r] ? (unsigned long long)in_rstart[r] + in_rlen[r] / gran - 1 : (unsigned long long)in_rstart[r] - 1;
      if (in_famknown[r] & 1) { CHECK(si < nstr && str_val[si] == fam_known.Name, "family name of the record's CPU id"); si++; }
      else { CHECK(ni < nnum && num_conv[ni] == 'x' && num_val[ni] == in_rcpu[r], "unknown family: the CPU id is shown"); ni++; }
      CHECK(si < nstr && str_val[si] == SegNames[seg], "segment name of the record"); si++;
      CHECK(ni < nnum && num_width[ni] == 8 && num_val[ni] == in_rstart[r], "start address of the record"); ni++;
      CHECK(ni < nnum && num_width[ni] == 4 && num_val[ni] == in_rlen[r], "byte length of the record"); ni++;
      CHECK(ni < nnum && num_width[ni] == 8 && (num_val[ni] & 0xffffffffull) == (last & 0xffffffffull), "last address = start + length/granularity - 1"); ni++;
      sums[seg] += in_rlen[r];
      WITNESS("data record line");
    }
  }
  /* summary: for CODE and every segment with a non-zero total, the total is printed as a number */
  for (k = 0; k < SegCount; k++)
    if (k == SegCode || sums[k])
    {
      CHECK(Sums[k] == sums[k], "per-segment total = sum of the record lengths");
      CHECK(ni < nnum && num_conv[ni] == 'u' && num_val[ni] == sums[k], "the total is printed in the summary line");
      ni++;
    }
  CHECK(ni == nnum, "no further numeric fields");
  WITNESS("end");
}
