/* C07-K1: PBIND -- the real OpenTarget/ProcessFile/CloseTarget (pbind.c) and
 * ReadRecordHeader/WriteRecordHeader/SkipRecord/FilterOK (toolutils.c).
 * Input: code file built from symbolic records (long, short, entry, $82 records).
 * Output: array-backed file, re-read by an independent reader written from
 * doc/file-formats.md; must hold exactly the filtered data/entry records, in order.
 */
#include "vlib.h"
#include <stdio.h>
#include <stdlib.h>
#include "vfile.h"
#ifndef CF_R
#define CF_R 2
#endif
#ifndef CF_L
#define CF_L 2
#endif
#include "cfbuild.h"

static int exit_code = -1;
static void vexit(int code);
static int vf_fprintf(FILE* f, const char* fmt, ...) { (void)f; (void)fmt; return 0; }
#define exit(n) vexit(n)
#define fprintf vf_fprintf
#define printf(...) ((void)0)
#define main pbind_main
#include "src/toolutils.c"
#include "src/pbind.c"
#undef main
#undef exit

char* getmessage(int n) { static char e[1]; (void)n; return e; }
char* catgetmessage(PMsgCat c, int n) { static char e[1]; (void)c; (void)n; return e; }
char* GetErrorMsg(int n) { static char e[1]; (void)n; return e; }
long FileSize(FILE* f) { return VF(f)->size; }

#define OUTCAP 80
static unsigned char outbuf[OUTCAP], copybuf[BufferSize];
static VFILE src, targ;
static char srcname[2] = "s";
static VFILE* vf_open_hook(const char* name, const char* mode)
{ (void)mode; if (name == srcname) { src.pos = 0; return &src; } targ.pos = 0; return &targ; }

static void vexit(int code)
{
  exit_code = code;
  CHECK(0, "pbind must not abort on a well-formed code file");
#ifdef REPLAY
  fflush(stdout); _Exit(1);
#else
  __CPROVER_assume(0);
#endif
}

unsigned char in_dofilter, in_filter[2], in_nfilter;

static int filter_ok(int r)
{
  int z;
  if (!in_dofilter) return 1;
  for (z = 0; z < 2; z++) if (z < in_nfilter && in_filter[z] == in_rcpu[r]) return 1;
  return 0;
}

/* independent reader state */
static long rp;
static int rd(void) { if (rp >= targ.size || rp >= OUTCAP) return -1; return outbuf[rp++]; }
static unsigned rd32(void) { unsigned v = 0; int k; for (k = 0; k < 4; k++) v |= (unsigned)(rd() & 0xff) << (8 * k); return v; }

void harness(void)
{
  int r, k;
  cf_load();
  LOAD(in_dofilter); LOADA(in_filter, 2); LOAD(in_nfilter);
  for (r = 0; r < CF_R; r++)
  {
#ifdef RKINDS
    in_rkind[r] = (RKINDS >> (4 * r)) & 15;          /* record kinds fixed per obligation: the file layout up to the payload lengths is concrete */
#endif
    ASSUME(in_rkind[r] <= 4);
    ASSUME(in_rcpu[r] != 0 && (in_rkind[r] != 1 || in_rcpu[r] < 0x80));   /* no CPU family has id 0 */
    ASSUME(in_rseg[r] < SegCount);
    ASSUME(in_rgran[r] == 1 || in_rgran[r] == 2 || in_rgran[r] == 4);
    ASSUME(in_rlen[r] <= CF_L);
  }
  ASSUME(in_dofilter <= 1 && in_nfilter <= 2 && (!in_dofilter || in_nfilter >= 1));
  cf_build();
  src.kind = VF_READ; src.data = cf_buf; src.size = cf_size; src.cap = CF_CAP;
  targ.kind = VF_ARRAY; targ.data = outbuf; targ.cap = OUTCAP; targ.pos = targ.size = 0;
  DoFilter = in_dofilter; FilterCnt = in_nfilter; FilterBytes[0] = in_filter[0]; FilterBytes[1] = in_filter[1];
  QuietMode = True; Buffer = copybuf;
  strcpy(TargName, "t");

  OpenTarget();
  ProcessFile(srcname);
  CloseTarget();

  CHECK(!targ.oob, "output fits the modelled file");
  /* ---- independent reader ---- */
  rp = 0;
  CHECK(rd() == 0x89 && rd() == 0x14, "output starts with the magic $1489");
  for (r = 0; r < CF_R; r++)
  {
    int kind = in_rkind[r];
    if (kind == 2)
    {
      CHECK(rd() == 0x80, "entry record conserved (type)");
      CHECK(rd32() == in_rstart[r], "entry record conserved (address)");
#ifndef RKINDS
      WITNESS("entry record");
#endif
    }
    else if ((kind == 0 || kind == 1) && filter_ok(r))
    {
      int h = rd(); unsigned cpu, seg, gran, len;
      unsigned ecpu = in_rcpu[r], eseg = (kind == 0) ? in_rseg[r] : SegCode, egran = (kind == 0) ? in_rgran[r] : Granularity(in_rcpu[r], SegCode);
      if (h == 0x81) { cpu = rd(); seg = rd(); gran = rd(); WITNESS("long header written"); }
      else { CHECK(h > 0 && h < 0x80, "data record header is $81 or a short-form CPU id"); cpu = h; seg = SegCode; gran = Granularity((Byte)cpu, SegCode); WITNESS("short header written"); }
      CHECK(cpu == ecpu, "CPU family conserved");
      CHECK(seg == eseg, "segment conserved");
      CHECK(gran == egran, "granularity conserved");
      CHECK(rd32() == in_rstart[r], "start address conserved");
      len = (unsigned)rd(); len |= (unsigned)rd() << 8;
      CHECK(len == in_rlen[r], "length conserved");
      for (k = 0; k < CF_L; k++) if (k < in_rlen[r]) CHECK(rd() == in_rdata[r * CF_L + k], "payload conserved");
    }
    /* kinds 3 (absent), 4 ($82 records) and filtered-out records contribute nothing */
  }
  CHECK(rd() == 0x00, "creator record terminates the file directly after the last kept record");
  CHECK(rp < targ.size, "creator string present");
  WITNESS("end");
}
