/* C08-K1: operator bodies of operator.c vs the manual's operator table
 * (doc/assembler-usage.md "Operators Predefined by AS").
 * The operator under test is selected with -DOP_<name>; the real static
 * function is called directly (TU inclusion) and, separately, the table
 * harness OP_TABLE ties each function to its symbol, arity and rank.
 */
#include "vlib.h"
#include "src/operator.c"
#include "diag.h"
#include <stdint.h>

PRelocEntry MergeRelocs(PRelocEntry* list1, PRelocEntry* list2, Boolean Add)
{ (void)list1; (void)list2; (void)Add; return NULL; }

LargeInt in_l, in_r;
double in_fl, in_fr;
unsigned in_lflags, in_rflags;

static TempResult L, R, E;

#define U(x) ((LargeWord)(x))
#define I64MIN ((LargeInt)0x8000000000000000ull)

static void prep_int(void)
{
  as_tempres_ini(&L); as_tempres_ini(&R); as_tempres_ini(&E);
  as_tempres_set_int(&L, in_l);
  as_tempres_set_int(&R, in_r);
}

/* bounded float operand: integer-valued |v| < 2^FSMALLBITS, or one of the specials */
static double small_float(LargeInt a, unsigned kind)
{
  switch (kind)
  {
    case 1: return 1.0 / 0.0;
    case 2: return -1.0 / 0.0;
    case 3: return 0.0 / 0.0;
    case 4: return -0.0;
    default: return (double)a;
  }
}

static void prep_float(void)
{
  as_tempres_ini(&L); as_tempres_ini(&R); as_tempres_ini(&E);
  as_tempres_set_float(&L, in_fl);
  as_tempres_set_float(&R, in_fr);
}

#define INT_RESULT(expected, what) do { \
    CHECK(diag_cnt == 0, what ": no diagnostic for a defined operation"); \
    CHECK(E.Typ == TempInt, what ": result type is integer"); \
    CHECK(E.Contents.Int == (LargeInt)(expected), what ": value as documented"); } while (0)

#define INT_OP(fn, expected, what) do { prep_int(); fn(&E, &L, &R); INT_RESULT(expected, what); } while (0)

static LargeWord mirror_ref(LargeWord v, unsigned n)
{
  LargeWord lowmask = (n >= 64) ? ~(LargeWord)0 : ((((LargeWord)1) << n) - 1), res = v & ~lowmask;
  unsigned z;
  for (z = 0; z < 32; z++)
    if (z < n && ((v >> (n - 1 - z)) & 1))
      res |= ((LargeWord)1) << z;
  return res;
}

void harness(void)
{
  LOAD(in_l); LOAD(in_r); LOAD(in_fl); LOAD(in_fr);
  diag_reset();

#if defined(OP_NOT)
  INT_OP(OneComplOp, ~in_r, "~");
#elif defined(OP_SHL)
  ASSUME(in_r >= 0 && in_r <= 63);     /* bound: counts outside 0..63 are outside the claim */
  INT_OP(ShLeftOp, U(in_l) << in_r, "<<");
#elif defined(OP_SHR)
  ASSUME(in_r >= 0 && in_r <= 63);
  prep_int(); ShRightOp(&E, &L, &R);
  CHECK(diag_cnt == 0 && E.Typ == TempInt, ">>: integer result, no diagnostic");
  /* manual: 'log. shift right'; the C code shifts the signed value.  For a
     non-negative left operand both agree and the value is fixed; for a negative
     one either reading is accepted (not adjudicated, see DESIGN.md C08). */
  if (in_l >= 0)
    CHECK(E.Contents.Int == (LargeInt)(U(in_l) >> in_r), ">>: value for non-negative operand");
  else
    CHECK(E.Contents.Int == (LargeInt)(U(in_l) >> in_r)
          || E.Contents.Int == (LargeInt)((U(in_l) >> in_r) | ~(~(LargeWord)0 >> in_r)), ">>: value for negative operand");
#elif defined(OP_MIRROR)
  prep_int(); BitMirrorOp(&E, &L, &R);
  if (in_r < 1 || in_r > 32)
  {
    CHECK(diag_cnt > 0, "><: bit count outside 1..32 is reported");
    CHECK(E.Typ == TempNone, "><: no value for an undefined operation");
  }
  else
    INT_RESULT(mirror_ref(U(in_l), (unsigned)in_r), "><");
#elif defined(OP_AND)
  INT_OP(BinAndOp, in_l & in_r, "&");
#elif defined(OP_OR)
  INT_OP(BinOrOp, in_l | in_r, "|");
#elif defined(OP_XOR)
  INT_OP(BinXorOp, in_l ^ in_r, "!");
#elif defined(OP_MUL)
  INT_OP(MultOp, U(in_l) * U(in_r), "*");
#elif defined(OP_ADD)
  INT_OP(AddOp, U(in_l) + U(in_r), "+");
#elif defined(OP_SUB)
  INT_OP(SubOp, U(in_l) - U(in_r), "-");
#elif defined(OP_NEG)
  /* monadic minus: the evaluator supplies 0 as left operand */
  in_l = 0;
  INT_OP(SubOp, U(0) - U(in_r), "monadic -");
  CHECK(MinusMonadicOperator.pFunc == SubOp && !MinusMonadicOperator.Dyadic, "monadic minus descriptor");
#elif defined(OP_DIV)
  prep_int(); DivOp(&E, &L, &R);
  if (in_r == 0)
  {
    CHECK(diag_has(ErrNum_DivByZero), "/: division by zero is reported");
    CHECK(E.Typ == TempNone, "/: no value on division by zero");
  }
  else
  {
    LargeInt q = (in_r == -1) ? (LargeInt)(U(0) - U(in_l)) : in_l / in_r;   /* truncating, mod 2^64 */
    INT_RESULT(q, "/");
  }
#elif defined(OP_MOD)
  prep_int(); ModOp(&E, &L, &R);
  if (in_r == 0)
  {
    CHECK(diag_has(ErrNum_DivByZero), "#: division by zero is reported");
    CHECK(E.Typ == TempNone, "#: no value on division by zero");
  }
  else
  {
    LargeInt m = (in_r == -1) ? 0 : in_l % in_r;
    INT_RESULT(m, "#");
  }
#elif defined(OP_POW)
  ASSUME(in_r <= POWMAX);
  {
    /* bound: base = b * 2^s with |b| < 2^POWBITS (s free, so the mod-2^64 wrap is exercised) */
    LargeInt b; unsigned s;
    LOAD(in_lflags); s = in_lflags;
    ASSUME(s <= 62);
    b = in_l; ASSUME(b >= -(1ll << POWBITS) && b < (1ll << POWBITS));
    in_l = (LargeInt)(U(b) << s);
  }
  prep_int(); PotOp(&E, &L, &R);
  {
    LargeWord acc = 1; int i;
    for (i = 0; i < POWMAX; i++) if (i < in_r) acc *= U(in_l);
    if (in_r < 0) acc = 0;            /* integer power with negative exponent: 0 */
    INT_RESULT(acc, "^ (int)");
  }
#elif defined(OP_LNOT)
  INT_OP(LogNotOp, in_r == 0, "~~");
#elif defined(OP_LAND)
  INT_OP(LogAndOp, (in_l != 0) && (in_r != 0), "&&");
#elif defined(OP_LOR)
  INT_OP(LogOrOp, (in_l != 0) || (in_r != 0), "||");
#elif defined(OP_LXOR)
  INT_OP(LogXorOp, (in_l != 0) != (in_r != 0), "!!");
#elif defined(OP_CMP)
  INT_OP(EqOp, in_l == in_r, "=");
  INT_OP(UneqOp, in_l != in_r, "<>");
  INT_OP(GtOp, in_l > in_r, ">");
  INT_OP(LtOp, in_l < in_r, "<");
  INT_OP(LeOp, in_l <= in_r, "<=");
  INT_OP(GeOp, in_l >= in_r, ">=");
#elif defined(OP_FCMP)
#define FCMP(fn, expr, what) do { prep_float(); fn(&E, &L, &R); INT_RESULT(expr, what); } while (0)
  FCMP(EqOp, in_fl == in_fr, "= (float)");
  FCMP(UneqOp, in_fl != in_fr, "<> (float)");
  FCMP(GtOp, in_fl > in_fr, "> (float)");
  FCMP(LtOp, in_fl < in_fr, "< (float)");
  FCMP(LeOp, in_fl <= in_fr, "<= (float)");
  FCMP(GeOp, in_fl >= in_fr, ">= (float)");
#elif defined(OP_FARITH)
#ifdef FSMALLBITS
  LOAD(in_lflags); LOAD(in_rflags);
  ASSUME(in_l > -(1ll << FSMALLBITS) && in_l < (1ll << FSMALLBITS) && in_r > -(1ll << FSMALLBITS) && in_r < (1ll << FSMALLBITS));
  ASSUME(in_lflags <= 4 && in_rflags <= 4);
  in_fl = small_float(in_l, in_lflags); in_fr = small_float(in_r, in_rflags);
#endif
#define FOP(fn, expr, what) do { prep_float(); fn(&E, &L, &R); \
    CHECK(diag_cnt == 0 && E.Typ == TempFloat, what ": float result, no diagnostic"); \
    { double _e = (expr); CHECK((E.Contents.Float == _e) || (_e != _e && E.Contents.Float != E.Contents.Float), what ": IEEE double value"); } } while (0)
  FOP(AddOp, in_fl + in_fr, "+ (float)");
  FOP(SubOp, in_fl - in_fr, "- (float)");
#elif defined(OP_FMUL)
#ifdef FSMALLBITS
  LOAD(in_lflags); LOAD(in_rflags);
  ASSUME(in_l > -(1ll << FSMALLBITS) && in_l < (1ll << FSMALLBITS) && in_r > -(1ll << FSMALLBITS) && in_r < (1ll << FSMALLBITS));
  ASSUME(in_lflags <= 4 && in_rflags <= 4);
  in_fl = small_float(in_l, in_lflags); in_fr = small_float(in_r, in_rflags);
#else
  {
    /* bound: operands with at most MANT significant mantissa bits (keeps the two
       multiplier circuits small); exponents, signs, NaN/Inf unrestricted */
    unsigned long long bl, br;
    memcpy(&bl, &in_fl, 8); memcpy(&br, &in_fr, 8);
    ASSUME((bl & ((1ull << (52 - MANT)) - 1)) == 0 && (br & ((1ull << (52 - MANT)) - 1)) == 0);
  }
#endif
#define FOP(fn, expr, what) do { prep_float(); fn(&E, &L, &R); \
    CHECK(diag_cnt == 0 && E.Typ == TempFloat, what ": float result, no diagnostic"); \
    { double _e = (expr); CHECK((E.Contents.Float == _e) || (_e != _e && E.Contents.Float != E.Contents.Float), what ": IEEE double value"); } } while (0)
  FOP(MultOp, in_fl * in_fr, "* (float)");
#elif defined(OP_FDIV)
#ifdef FSMALLBITS
  LOAD(in_lflags); LOAD(in_rflags);
  ASSUME(in_l > -(1ll << FSMALLBITS) && in_l < (1ll << FSMALLBITS) && in_r > -(1ll << FSMALLBITS) && in_r < (1ll << FSMALLBITS));
  ASSUME(in_lflags <= 4 && in_rflags <= 4);
  in_fl = small_float(in_l, in_lflags); in_fr = small_float(in_r, in_rflags);
#else
  {
    unsigned long long bl, br;
    memcpy(&bl, &in_fl, 8); memcpy(&br, &in_fr, 8);
    ASSUME((bl & ((1ull << (52 - MANT)) - 1)) == 0 && (br & ((1ull << (52 - MANT)) - 1)) == 0);
  }
#endif
  prep_float(); DivOp(&E, &L, &R);
  if (in_fr == 0.0)
  {
    CHECK(diag_has(ErrNum_DivByZero), "/ (float): division by zero is reported");
    CHECK(E.Typ == TempNone, "/ (float): no value on division by zero");
  }
  else
  {
    double e = in_fl / in_fr;
    CHECK(diag_cnt == 0 && E.Typ == TempFloat, "/ (float): float result");
    CHECK(E.Contents.Float == e || (e != e && E.Contents.Float != E.Contents.Float), "/ (float): IEEE double value");
  }
#elif defined(OP_FPOW)
  /* negative (or any) integral base with a small integral exponent: the result is
     exactly representable, so equality is the right oracle.  pow() itself (positive
     non-integral cases) is libm and outside the claim. */
  {
    int b, n, i; double ref = 1.0;
    ASSUME(in_l >= -16 && in_l <= -1);       /* base: negative integers (the branch that does not use libm) */
    ASSUME(in_r >= -FPOWMAX && in_r <= FPOWMAX);
    b = (int)in_l; n = (int)in_r;
    in_fl = (double)b; in_fr = (double)n;
    prep_float(); PotOp(&E, &L, &R);
    for (i = 0; i < FPOWMAX; i++) if (i < (n < 0 ? -n : n)) ref *= (double)b;
    CHECK(diag_cnt == 0 && E.Typ == TempFloat, "^ (float): float result");
    if (n >= 0)
      CHECK(E.Contents.Float == ref, "^ (float): negative base, integral exponent >= 0");
    else if (b == -1 || b == -2 || b == -4 || b == -8 || b == -16)
      CHECK(E.Contents.Float == 1.0 / ref, "^ (float): negative power-of-two base, integral exponent < 0");
  }
#elif defined(OP_TABLE)
  {
    /* manual table: symbol, #operands, rank (smaller = binds tighter) */
    static const struct { const char* id; int dyadic; int rank; } man[] = {
      {"<>", 1, 14}, {">=", 1, 14}, {"<=", 1, 14}, {"<", 1, 14}, {">", 1, 14}, {"=", 1, 14}, {"==", 1, 14},
      {"!!", 1, 13}, {"||", 1, 12}, {"&&", 1, 11}, {"~~", 0, 2}, {"-", 1, 10}, {"+", 1, 10},
      {"#", 1, 9}, {"/", 1, 9}, {"*", 1, 9}, {"^", 1, 8}, {"!", 1, 7}, {"|", 1, 6}, {"&", 1, 5},
      {"><", 1, 4}, {">>", 1, 3}, {"<<", 1, 3}, {"~", 0, 1} };
    enum { NMAN = sizeof(man) / sizeof(*man) };
    int idx[NMAN]; int i, j, k;
    for (i = 0; i < NMAN; i++)
    {
      idx[i] = -1;
      for (k = 0; Operators[k].Id; k++)
        if (!strcmp(Operators[k].Id, man[i].id)) idx[i] = k;
      CHECK(idx[i] >= 0, "every documented operator is in the table");
      if (idx[i] < 0) return;
      CHECK(!!Operators[idx[i]].Dyadic == man[i].dyadic, "operand count as documented");
      CHECK(Operators[idx[i]].IdLen == (int)strlen(man[i].id), "IdLen matches the symbol");
    }
    for (i = 0; i < NMAN; i++)
      for (j = 0; j < NMAN; j++)
      {
        int pi = Operators[idx[i]].Priority, pj = Operators[idx[j]].Priority;
        if (man[i].rank < man[j].rank) CHECK(pi < pj, "rank order as documented");
        if (man[i].rank == man[j].rank) CHECK(pi == pj, "equal ranks share a priority");
      }
#define TIE(sym, fn) do { for (k = 0; Operators[k].Id; k++) if (!strcmp(Operators[k].Id, sym)) CHECK(Operators[k].pFunc == fn, "operator symbol bound to its function: " sym); } while (0)
    TIE("~", OneComplOp); TIE("<<", ShLeftOp); TIE(">>", ShRightOp); TIE("><", BitMirrorOp);
    TIE("&", BinAndOp); TIE("|", BinOrOp); TIE("!", BinXorOp); TIE("^", PotOp); TIE("*", MultOp);
    TIE("/", DivOp); TIE("#", ModOp); TIE("+", AddOp); TIE("-", SubOp); TIE("~~", LogNotOp);
    TIE("&&", LogAndOp); TIE("||", LogOrOp); TIE("!!", LogXorOp); TIE("=", EqOp); TIE("==", EqOp);
    TIE(">", GtOp); TIE("<", LtOp); TIE("<=", LeOp); TIE(">=", GeOp); TIE("<>", UneqOp);
  }
#else
#error "select an operator with -DOP_..."
#endif
  WITNESS("end");
}
