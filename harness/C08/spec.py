"""C08 obligations (see DESIGN.md C08)."""
OPS_COMMON = dict(src="ops.c", include=["operator.c"], units=["tempresult.c", "nonzstring.c"], stubs=["diag.c"],
                  assumes=["diag.c contract stub replaces asmerr.c/errmsg.c (records number/class, no text)",
                           "MergeRelocs cut to 'returns NULL' (relocations outside the claim)"])

def op(name, define, fn, bounds="all 2^64 x 2^64 operand pairs", **kw):
    d = dict(OPS_COMMON)
    d.update(name="op_" + name, defs=["OP_" + define], functions=["operator.c:" + f for f in fn], bounds=bounds)
    d.update(kw)
    return d

OBLIGATIONS = [
    op("not", "NOT", ["OneComplOp"]),
    op("shl", "SHL", ["ShLeftOp"], bounds="all 64-bit left operands, counts 0..63"),
    op("shr", "SHR", ["ShRightOp"], bounds="all 64-bit left operands, counts 0..63"),
    op("mirror", "MIRROR", ["BitMirrorOp"], unwindset=["BitMirrorOp.0:33"]),
    op("and", "AND", ["BinAndOp"]), op("or", "OR", ["BinOrOp"]), op("xor", "XOR", ["BinXorOp"]),
    op("mul", "MUL", ["MultOp"], backends=["sat", "z3"], timeout=900),
    op("add", "ADD", ["AddOp"]), op("sub", "SUB", ["SubOp"]), op("neg", "NEG", ["SubOp"]),
    op("div", "DIV", ["DivOp"], backends=["z3", "cvc5"], cbmc=["--signed-overflow-check"]),
    op("mod", "MOD", ["ModOp"], backends=["z3", "cvc5"], cbmc=["--signed-overflow-check"]),
    op("pow", "POW", ["PotOp"], defs=["OP_POW", "POWMAX=7", "POWBITS=7"], unwindset=["PotOp.0:4"], backends=["sat", "z3"], timeout=900,
       bounds="bases b*2^s with |b| < 128 and s <= 62, exponents <= 7 (negative exponents included)"),
    op("lnot", "LNOT", ["LogNotOp"]), op("land", "LAND", ["LogAndOp"]), op("lor", "LOR", ["LogOrOp"]), op("lxor", "LXOR", ["LogXorOp"]),
    op("cmp", "CMP", ["EqOp", "UneqOp", "GtOp", "LtOp", "LeOp", "GeOp"]),
    op("fcmp", "FCMP", ["EqOp", "UneqOp", "GtOp", "LtOp", "LeOp", "GeOp"], bounds="all pairs of doubles incl. NaN/Inf"),
    op("faddsub", "FARITH", ["AddOp", "SubOp"], defs=["OP_FARITH", "FSMALLBITS=10"], bounds="integer-valued doubles |v| < 1024, +-0, +-Inf, NaN"),
    op("fmul", "FMUL", ["MultOp"], defs=["OP_FMUL", "FSMALLBITS=10"], bounds="integer-valued doubles |v| < 1024, +-0, +-Inf, NaN"),
    op("fdiv", "FDIV", ["DivOp"], defs=["OP_FDIV", "FSMALLBITS=5"], backends=["sat","z3","cvc5","kissat"], timeout=400, bounds="integer-valued doubles |v| < 32, +-0, +-Inf, NaN"),
    op("fmul_mant6", "FMUL", ["MultOp"], defs=["OP_FMUL", "MANT=6"], tier="thorough", timeout=1800,
       bounds="doubles with <= 6 significant mantissa bits, any exponent/sign/NaN/Inf"),
    op("fpow", "FPOW", ["PotOp"], defs=["OP_FPOW", "FPOWMAX=4"], unwindset=["PotOp.1:4"], allow_nobody=["pow", "floor", "fabs"],
       bounds="bases -16..-1, integral exponents -4..4"),
    op("table", "TABLE", ["Operators[]", "MinusMonadicOperator"], bounds="whole table (concrete)"),
]

def fn(name, d, f, bounds, **kw):
    o = dict(name="fn_" + name, src="funcs.c", include=["function.c"], units=["tempresult.c", "nonzstring.c", "bpemu.c"], stubs=["diag.c"], defs=[d, "STRINGSIZE=16"],
             functions=["function.c:" + x for x in f], bounds=bounds, unwind=8, unwind_fn={"harness": 70, "FuncBITCNT": 66, "FuncFIRSTBIT": 66, "FuncLASTBIT": 66},
             assumes=["diag.c stub for the error interface"])
    o.update(kw); return o
OBLIGATIONS += [
    fn("bits", "F_BITS", ["FuncBITCNT", "FuncFIRSTBIT", "FuncLASTBIT"], "all 2^64 integers"),
    fn("intmisc", "F_INTMISC", ["FuncSGN", "FuncABS", "FuncTOUPPER"], "all 2^64 integers"),
    fn("str", "F_STR", ["FuncSTRLEN", "FuncCHARFROMSTR", "FuncSUBSTR"], "strings of 0..4 arbitrary characters, any 64-bit position, count -8..8"),
    fn("str2", "F_STR2", ["FuncSTRSTR", "FuncUPSTRING", "FuncLOWSTRING"], "haystack and needle of 0..4 arbitrary characters each"),
    fn("intmisc2", "F_INTMISC2", ["FuncTOLOWER", "FuncEXPRTYPE"], "all 2^64 integers; the three value types"),
    fn("domain", "F_DOMAIN", ["FuncSQRT", "FuncASIN", "FuncACOS", "FuncLN", "FuncLOG", "FuncLD", "FuncACOSH", "FuncSGN"], "all non-NaN doubles (domain guards only; libm results arbitrary)",
       allow_nobody=["sqrt", "asin", "acos", "log", "log10", "acosh", "fabs", "floor"]),
]
META = dict(
    outside=["operator split / ranks inside EvalStrExpression (string recursion does not finish under symex)",
             "shift counts outside 0..63; sign handling of >> on negative operands (manual: logical, code: arithmetic)",
             "integer ^ with exponents > 3; float ^ through libm pow()", "numeric results of transcendental functions (libm)",
             "depth-6 expression trees, float literal parsing (strtod), \\{...} stringification, user-defined functions"],
    assumptions=["CBMC bit-precise semantics for 64-bit integers and IEEE doubles", "malloc never fails"])
