/* C08-K2: built-in functions of function.c on their whole documented integer/string domain
 * (doc/assembler-usage.md "Functions Predefined by AS"); domain guards of the transcendental
 * functions (libm results themselves are outside).
 */
#include "vlib.h"
#include "src/function.c"
#include "diag.h"

LargeInt in_a, in_b, in_c;
double in_f;
char in_s[4]; unsigned char in_slen;
char in_t[4]; unsigned char in_tlen;
static TempResult A[3], E;
static char sbuf[8], tbuf[8];

static void arg_int(int k, LargeInt v) { as_tempres_ini(&A[k]); as_tempres_set_int(&A[k], v); }
static void arg_str(int k) { as_tempres_ini(&A[k]); A[k].Typ = TempString; A[k].Contents.str.p_str = sbuf; A[k].Contents.str.len = in_slen; A[k].Contents.str.capacity = sizeof(sbuf); }

static void arg_str2(int k) { as_tempres_ini(&A[k]); A[k].Typ = TempString; A[k].Contents.str.p_str = tbuf; A[k].Contents.str.len = in_tlen; A[k].Contents.str.capacity = sizeof(tbuf); }

void harness(void)
{
  int i;
  LOAD(in_a); LOAD(in_b); LOAD(in_c); LOAD(in_f); LOADA(in_s, 4); LOAD(in_slen);
  ASSUME(in_slen <= 4);
  for (i = 0; i < 4; i++) sbuf[i] = in_s[i];
  as_tempres_ini(&E); diag_reset();
#if defined(F_BITS)
  {
    int cnt = 0, lo = -1, hi = -1;
    for (i = 0; i < 64; i++) if (((unsigned long long)in_a >> i) & 1) { cnt++; if (lo < 0) lo = i; hi = i; }
    arg_int(0, in_a);
    FuncBITCNT(&E, A, 1); CHECK(E.Typ == TempInt && E.Contents.Int == cnt, "BITCNT: number of one bits");
    FuncFIRSTBIT(&E, A, 1); CHECK(E.Typ == TempInt && E.Contents.Int == lo, "FIRSTBIT: position of the lowest 1-bit, -1 if none");
    FuncLASTBIT(&E, A, 1); CHECK(E.Typ == TempInt && E.Contents.Int == hi, "LASTBIT: position of the highest 1-bit, -1 if none");
    CHECK(diag_cnt == 0, "bit functions raise nothing");
  }
#elif defined(F_INTMISC)
  arg_int(0, in_a);
  FuncSGN(&E, A, 1); CHECK(E.Typ == TempInt && E.Contents.Int == (in_a < 0 ? -1 : in_a > 0 ? 1 : 0), "SGN (integer)");
  FuncABS(&E, A, 1); CHECK(E.Typ == TempInt && E.Contents.Int == (LargeInt)(in_a < 0 ? 0 - (unsigned long long)in_a : (unsigned long long)in_a), "ABS (integer, modulo 2^64)");
  CHECK(diag_cnt == 0, "SGN/ABS raise nothing");
  as_tempres_set_none(&E);
  FuncTOUPPER(&E, A, 1);
  if (in_a < 0 || in_a > 255) { CHECK(diag_cnt == 1 && E.Typ == TempNone, "TOUPPER outside 0..255 is an error without value"); }
  else CHECK(diag_cnt == 0 && E.Typ == TempInt && E.Contents.Int == ((in_a >= 'a' && in_a <= 'z') ? in_a - 32 : ((in_a < 128) ? in_a : E.Contents.Int)), "TOUPPER (ASCII)");
#elif defined(F_STR)
  arg_str(0); arg_int(1, in_b); arg_int(2, in_c);
  FuncSTRLEN(&E, A, 1); CHECK(E.Typ == TempInt && E.Contents.Int == in_slen, "STRLEN");
  FuncCHARFROMSTR(&E, A, 2);
  CHECK(E.Typ == TempInt && E.Contents.Int == ((in_b >= 0 && in_b < in_slen) ? (LargeInt)in_s[in_b] : -1), "CHARFROMSTR: character at the position, -1 outside the string");
  {
    /* SUBSTR(str, start, count): start < 0 is treated as 0; start >= length gives the empty string; count 0 = rest */
    LargeInt st = in_b < 0 ? 0 : in_b, avail = (st >= in_slen) ? 0 : in_slen - st, n;
    ASSUME(in_c >= -8 && in_c <= 8);
    n = (in_c != 0 && in_c < avail) ? in_c : avail; if (n < 0) n = 0;
    as_tempres_ini(&E);
    FuncSUBSTR(&E, A, 3);
    CHECK(E.Typ == TempString && (LargeInt)E.Contents.str.len == n, "SUBSTR: length of the extracted part");
    for (i = 0; i < 4; i++) if (i < n) CHECK(E.Contents.str.p_str[i] == in_s[st + i], "SUBSTR: extracted characters");
    if (in_b < 0) WITNESS("negative start");
  }
#elif defined(F_STR2)
  {
    int j, want = -1;
    LOADA(in_t, 4); LOAD(in_tlen);
    ASSUME(in_tlen <= 4);
    for (i = 0; i < 4; i++) tbuf[i] = in_t[i];
    /* STRSTR(haystack, needle): first position at which needle occurs, -1 if it does not */
    for (i = 4; i >= 0; i--) if (i + in_tlen <= in_slen) {
      int eq = 1;
      for (j = 0; j < 4; j++) if (j < in_tlen && in_s[i + j] != in_t[j]) eq = 0;
      if (eq) want = i;
    }
    arg_str(0); arg_str2(1);
    FuncSTRSTR(&E, A, 2);
    CHECK(E.Typ == TempInt && E.Contents.Int == want, "STRSTR: first position of the substring, -1 if absent");
    if (want > 0) WITNESS("found at a later position");
    /* UPSTRING / LOWSTRING: same length, every ASCII letter folded, everything else (ASCII) unchanged */
    as_tempres_ini(&E); arg_str(0);
    FuncUPSTRING(&E, A, 1);
    CHECK(E.Typ == TempString && E.Contents.str.len == in_slen, "UPSTRING keeps the length");
    for (i = 0; i < 4; i++) if (i < in_slen && (unsigned char)in_s[i] < 128)
      CHECK(E.Contents.str.p_str[i] == ((in_s[i] >= 'a' && in_s[i] <= 'z') ? in_s[i] - 32 : in_s[i]), "UPSTRING: a..z to A..Z, other ASCII unchanged");
    for (i = 0; i < 4; i++) CHECK(sbuf[i] == in_s[i], "UPSTRING leaves its argument alone");
    as_tempres_ini(&E); arg_str(0);
    FuncLOWSTRING(&E, A, 1);
    CHECK(E.Typ == TempString && E.Contents.str.len == in_slen, "LOWSTRING keeps the length");
    for (i = 0; i < 4; i++) if (i < in_slen && (unsigned char)in_s[i] < 128)
      CHECK(E.Contents.str.p_str[i] == ((in_s[i] >= 'A' && in_s[i] <= 'Z') ? in_s[i] + 32 : in_s[i]), "LOWSTRING: A..Z to a..z, other ASCII unchanged");
    for (i = 0; i < 4; i++) CHECK(sbuf[i] == in_s[i], "LOWSTRING leaves its argument alone");
    CHECK(diag_cnt == 0, "string functions raise nothing");
  }
#elif defined(F_INTMISC2)
  arg_int(0, in_a);
  as_tempres_set_none(&E);
  FuncTOLOWER(&E, A, 1);
  if (in_a < 0 || in_a > 255) { CHECK(diag_cnt == 1 && E.Typ == TempNone, "TOLOWER outside 0..255 is an error without value"); }
  else CHECK(diag_cnt == 0 && E.Typ == TempInt && E.Contents.Int == ((in_a >= 'A' && in_a <= 'Z') ? in_a + 32 : ((in_a < 128) ? in_a : E.Contents.Int)), "TOLOWER (ASCII)");
  diag_reset();
  FuncEXPRTYPE(&E, A, 1); CHECK(E.Typ == TempInt && E.Contents.Int == 0, "EXPRTYPE(integer) = 0");
  as_tempres_set_float(&A[0], in_f);
  FuncEXPRTYPE(&E, A, 1); CHECK(E.Typ == TempInt && E.Contents.Int == 1, "EXPRTYPE(float) = 1");
  arg_str(0);
  FuncEXPRTYPE(&E, A, 1); CHECK(E.Typ == TempInt && E.Contents.Int == 2, "EXPRTYPE(string) = 2");
  CHECK(diag_cnt == 0, "EXPRTYPE raises nothing");
#elif defined(F_DOMAIN)
  {
    as_tempres_ini(&A[0]); as_tempres_set_float(&A[0], in_f);
#define GUARD(fn, bad, what) do { as_tempres_ini(&E); diag_reset(); fn(&E, A, 1); if (bad) CHECK(diag_cnt == 1 && E.Typ == TempNone, what ": argument outside the domain is an error without value"); else CHECK(diag_cnt == 0 && E.Typ == TempFloat, what ": argument inside the domain yields a float"); } while (0)
    ASSUME(in_f == in_f);
    GUARD(FuncSQRT, in_f < 0, "SQRT");
    GUARD(FuncASIN, in_f > 1 || in_f < -1, "ASIN");
    GUARD(FuncACOS, in_f > 1 || in_f < -1, "ACOS");
    GUARD(FuncLN, in_f <= 0, "LN");
    GUARD(FuncLOG, in_f <= 0, "LOG");
    GUARD(FuncLD, in_f <= 0, "LD");
    GUARD(FuncACOSH, in_f < 1, "ACOSH");
    as_tempres_ini(&E); diag_reset(); FuncSGN(&E, A, 1);
    CHECK(E.Typ == TempInt && E.Contents.Int == (in_f < 0 ? -1 : in_f > 0 ? 1 : 0), "SGN (float)");
  }
#endif
  WITNESS("end");
}
