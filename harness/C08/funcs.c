/* C08-K2: built-in functions of function.c on their whole documented integer/string domain
 * (doc/assembler-usage.md "Functions Predefined by AS"); domain guards of the transcendental
 * functions (libm results themselves are outside).
 */
#include "vlib.h"
#include "src/function.c"
#include "diag.h"

LargeInt in_a, in_b, in_c;
double in_f;
char in_s[4]; unsigned char in_slen;
static TempResult A[3], E;
static char sbuf[8];

static void arg_int(int k, LargeInt v) { as_tempres_ini(&A[k]); as_tempres_set_int(&A[k], v); }
static void arg_str(int k) { as_tempres_ini(&A[k]); A[k].Typ = TempString; A[k].Contents.str.p_str = sbuf; A[k].Contents.str.len = in_slen; A[k].Contents.str.capacity = sizeof(sbuf); }

void harness(void)
{
  int i;
  LOAD(in_a); LOAD(in_b); LOAD(in_c); LOAD(in_f); LOADA(in_s, 4); LOAD(in_slen);
  ASSUME(in_slen <= 4);
  for (i = 0; i < 4; i++) sbuf[i] = in_s[i];
  as_tempres_ini(&E); diag_reset();
#if defined(F_BITS)
  {
    int cnt = 0, lo = -1, hi = -1;
    for (i = 0; i < 64; i++) if (((unsigned long long)in_a >> i) & 1) { cnt++; if (lo < 0) lo = i; hi = i; }
    arg_int(0, in_a);
    FuncBITCNT(&E, A, 1); CHECK(E.Typ == TempInt && E.Contents.Int == cnt, "BITCNT: number of one bits");
    FuncFIRSTBIT(&E, A, 1); CHECK(E.Typ == TempInt && E.Contents.Int == lo, "FIRSTBIT: position of the lowest 1-bit, -1 if none");
    FuncLASTBIT(&E, A, 1); CHECK(E.Typ == TempInt && E.Contents.Int == hi, "LASTBIT: position of the highest 1-bit, -1 if none");
    CHECK(diag_cnt == 0, "bit functions raise nothing");
  }
#elif defined(F_INTMISC)
  arg_int(0, in_a);
  FuncSGN(&E, A, 1); CHECK(E.Typ == TempInt && E.Contents.Int == (in_a < 0 ? -1 : in_a > 0 ? 1 : 0), "SGN (integer)");
  FuncABS(&E, A, 1); CHECK(E.Typ == TempInt && E.Contents.Int == (LargeInt)(in_a < 0 ? 0 - (unsigned long long)in_a : (unsigned long long)in_a), "ABS (integer, modulo 2^64)");
  CHECK(diag_cnt == 0, "SGN/ABS raise nothing");
  as_tempres_set_none(&E);
  FuncTOUPPER(&E, A, 1);
  if (in_a < 0 || in_a > 255) { CHECK(diag_cnt == 1 && E.Typ == TempNone, "TOUPPER outside 0..255 is an error without value"); }
  else CHECK(diag_cnt == 0 && E.Typ == TempInt && E.Contents.Int == ((in_a >= 'a' && in_a <= 'z') ? in_a - 32 : ((in_a < 128) ? in_a : E.Contents.Int)), "TOUPPER (ASCII)");
#elif defined(F_STR)
  arg_str(0); arg_int(1, in_b); arg_int(2, in_c);
  FuncSTRLEN(&E, A, 1); CHECK(E.Typ == TempInt && E.Contents.Int == in_slen, "STRLEN");
  FuncCHARFROMSTR(&E, A, 2);
  CHECK(E.Typ == TempInt && E.Contents.Int == ((in_b >= 0 && in_b < in_slen) ? (LargeInt)in_s[in_b] : -1), "CHARFROMSTR: character at the position, -1 outside the string");
  {
    /* SUBSTR(str, start, count): start < 0 is treated as 0; start >= length gives the empty string; count 0 = rest */
    LargeInt st = in_b < 0 ? 0 : in_b, avail = (st >= in_slen) ? 0 : in_slen - st, n;
    ASSUME(in_c >= -8 && in_c <= 8);
    n = (in_c != 0 && in_c < avail) ? in_c : avail; if (n < 0) n = 0;
    as_tempres_ini(&E);
    FuncSUBSTR(&E, A, 3);
    CHECK(E.Typ == TempString && (LargeInt)E.Contents.str.len == n, "SUBSTR: length of the extracted part");
    for (i = 0; i < 4; i++) if (i < n) CHECK(E.Contents.str.p_str[i] == in_s[st + i], "SUBSTR: extracted characters");
    if (in_b < 0) WITNESS("negative start");
  }
#elif defined(F_DOMAIN)
  {
    as_tempres_ini(&A[0]); as_tempres_set_float(&A[0], in_f);
#define GUARD(fn, bad, what) do { as_tempres_ini(&E); diag_reset(); fn(&E, A, 1); if (bad) CHECK(diag_cnt == 1 && E.Typ == TempNone, what ": argument outside the domain is an error without value"); else CHECK(diag_cnt == 0 && E.Typ == TempFloat, what ": argument inside the domain yields a float"); } while (0)
    ASSUME(in_f == in_f);
    GUARD(FuncSQRT, in_f < 0, "SQRT");
    GUARD(FuncASIN, in_f > 1 || in_f < -1, "ASIN");
    GUARD(FuncACOS, in_f > 1 || in_f < -1, "ACOS");
    GUARD(FuncLN, in_f <= 0, "LN");
    GUARD(FuncLOG, in_f <= 0, "LOG");
    GUARD(FuncLD, in_f <= 0, "LD");
    GUARD(FuncACOSH, in_f < 1, "ACOSH");
    as_tempres_ini(&E); diag_reset(); FuncSGN(&E, A, 1);
    CHECK(E.Typ == TempInt && E.Contents.Int == (in_f < 0 ? -1 : in_f > 0 ? 1 : 0), "SGN (float)");
  }
#endif
  WITNESS("end");
}
