/* C06: P2HEX ProcessFile() (p2hex.c) on one data record built from symbolic fields, option state
 * symbolic.  The text written to the target goes through the printf monitor into an online decoder
 * for the selected format (written from the public format definitions): syntax, count fields,
 * checksums, and every decoded data byte must be the source record's byte at the decoded address.
 * Formats: Intel 8/16/32, Motorola S, MOS.  Terminator/entry records (written by main()) are outside.
 */
#include "vlib.h"
#include <stdio.h>
#include <stdlib.h>
#include "vfile.h"
#include "vprintf.h"
#ifndef CF_R
#define CF_R 1
#endif
#ifndef CF_L
#define CF_L 5
#endif
#include "cfbuild.h"
#include "headids.h"
#include "chunks.h"

static int exit_code = -1;
static void vexit(int code);
#define exit(n) vexit(n)
#define fprintf vp_fprintf
#define printf vp_printf
#define main p2hex_main
#include "src/toolutils.c"
#include "src/p2hex.c"
#undef main
#undef exit

char* getmessage(int n) { static char e[1]; (void)n; return e; }
char* catgetmessage(PMsgCat c, int n) { static char e[1]; (void)c; (void)n; return e; }
char* GetErrorMsg(int n) { static char e[1]; (void)n; return e; }
long FileSize(FILE* f) { return VF(f)->size; }
void InitChunk(ChunkList* c) { (void)c; }
Boolean AddChunk(ChunkList* c, LargeWord s, LargeWord l, Boolean w) { (void)c; (void)s; (void)l; (void)w; return False; }
static TFamilyDescr fam_known = { "FAM", 0x11, eHexFormatDefault };
PFamilyDescr FindFamilyById(Word Num) { (void)Num; return &fam_known; }

static VFILE src, targ;
static char srcname[2] = "s";
static VFILE* vf_open_hook(const char* name, const char* mode) { (void)mode; if (name == srcname) { src.pos = 0; return &src; } return &targ; }
static void vexit(int code)
{
  exit_code = code;
  CHECK(0, "p2hex must not abort on a well-formed code file");
#ifdef REPLAY
  _Exit(1);
#else
  __CPROVER_assume(0);
#endif
}

/* ---- inputs: options ---- */
LongWord in_start, in_stop, in_relocate;
unsigned char in_linelen, in_reladr, in_minmoto, in_rec5, in_sepmoto, in_motooccured;

/* ---- online decoder: scalar state machine, one call per output byte (no line buffer) ---- */
static int idx, inside_line, nib_phase, nib_hi, stderr_msgs, syntax_err, expect_moto_type;
static unsigned lsum, f_len, f_type, f_alen;
static unsigned long long f_addr, f_ext;
static char line_kind, moto_type;
static unsigned long long base_addr;            /* Intel extended address base */
static long long next_addr = -1;                 /* address expected for the next data byte (contiguity) */
static unsigned long data_bytes, data_lines, s5_count, s5_lines; static int s5_seen;   /* s5_lines: data lines since the last S5 (p2hex announces each record's group) */
static unsigned long long exp_first, exp_last; static int exp_any;   /* clipped, relocated address range expected */
static unsigned mos_c1, mos_c2;

static unsigned char src_byte(unsigned long long hexaddr)
{
  /* hex address -> source address: undo relocation and relative addressing */
  unsigned long long a = hexaddr - (unsigned long long)(long long)(LongInt)in_relocate + (in_reladr ? in_start : 0);
#if CF_R > 1
  if (a >= in_rstart[1] && a - in_rstart[1] < in_rlen[1]) return in_rdata[CF_L + ((a - in_rstart[1]) & 7)];
#endif
  return in_rdata[(a - in_rstart[0]) & 7];
}
#if CF_R > 1
static unsigned long long exp_first2, exp_last2; static int exp_any2;
#define IN_EXP(h) ((exp_any && (h) >= exp_first && (h) <= exp_last) || (exp_any2 && (h) >= exp_first2 && (h) <= exp_last2))
#else
#define IN_EXP(h) (exp_any && (h) >= exp_first && (h) <= exp_last)
#endif

static void data_byte(unsigned long long hexaddr, unsigned char v)
{
  CHECK(IN_EXP(hexaddr), "decoded address lies in the selected (clipped, relocated) range");
  if (IN_EXP(hexaddr))
    CHECK(v == src_byte(hexaddr), "decoded byte = source record byte at the decoded address");
  if (next_addr >= 0) CHECK((long long)hexaddr == next_addr, "data bytes are emitted in address order without gap or repetition");
  next_addr = (long long)hexaddr + 1;
  data_bytes++;
}

static void byte_in(unsigned v)
{
  CHECK(inside_line, "hex digits only inside a record");
  if (line_kind == ':')
  {
    if (idx == 0) f_len = v;
    else if (idx == 1) f_addr = (unsigned long long)v << 8;
    else if (idx == 2) f_addr |= v;
    else if (idx == 3) { f_type = v; f_ext = 0; }
    else if (idx < 4 + (int)f_len)
    {
      if (f_type == 0) data_byte(base_addr + f_addr + (unsigned)(idx - 4), (unsigned char)v);
      else f_ext = (f_ext << 8) | v;
    }
    lsum += v;
  }
  else if (line_kind == 'S')
  {
    if (idx == 0) { f_len = v; f_addr = 0; f_alen = (moto_type == '2' || moto_type == '8') ? 3 : (moto_type == '3' || moto_type == '7') ? 4 : 2; }
    else if (idx <= (int)f_alen) f_addr = (f_addr << 8) | v;
    else if (idx < (int)f_len && moto_type >= '1' && moto_type <= '3') data_byte(f_addr + (unsigned)(idx - 1 - (int)f_alen), (unsigned char)v);
    lsum += v;
  }
  else if (line_kind == ';')
  {
    if (idx == 0) f_len = v;
    else if (idx == 1) f_addr = (unsigned long long)v << 8;
    else if (idx == 2) f_addr |= v;
    else if (idx < 3 + (int)f_len) data_byte(f_addr + (unsigned)(idx - 3), (unsigned char)v);
    else if (idx == 3 + (int)f_len) mos_c1 = v;
    else mos_c2 = v;
    if (idx < 3 + (int)f_len) lsum += v;
  }
  else CHECK(0, "line start character");
  idx++;
}

static void end_line(void)
{
  CHECK(!nib_phase, "a line holds whole bytes");
  if (line_kind == ':')
  {
    CHECK(idx == (int)f_len + 5, "Intel: byte count field = number of data bytes");
    CHECK((lsum & 0xff) == 0, "Intel: two's complement checksum");
    if (f_type == 0) data_lines++;
    else if (f_type == 4) { CHECK(f_len == 2 && f_addr == 0, "Intel: extended linear address record"); base_addr = f_ext << 16;
#if FMTN == 4
      WITNESS("extended linear address record");
#endif
    }
    else if (f_type == 2) { CHECK(f_len == 2 && f_addr == 0, "Intel: extended segment address record"); base_addr = f_ext << 4; }
    else CHECK(0, "Intel: only record types 00/02/04 in the data part");
  }
  else if (line_kind == 'S')
  {
    CHECK(idx == (int)f_len + 1, "Motorola: count field = bytes that follow");
    CHECK((lsum & 0xff) == 0xff, "Motorola: one's complement checksum");
    if (moto_type >= '1' && moto_type <= '3') { data_lines++; s5_lines++; }
    else if (moto_type == '5') { if (s5_seen) CHECK(s5_count == s5_lines, "Motorola S5: count of the data records of its group"); s5_seen = 1; s5_count = (unsigned long)f_addr; s5_lines = 0; }
    else if (moto_type == '0') { }
    else if (moto_type >= '7' && moto_type <= '9') {
#if FMTN == 1
      WITNESS("separate terminator");
#endif
    }
    else CHECK(0, "Motorola: record type");
  }
  else if (line_kind == ';')
  {
    CHECK(idx == (int)f_len + 5, "MOS: byte count field = number of data bytes");
    CHECK(((mos_c1 << 8) | mos_c2) == (lsum & 0xffff), "MOS: 16-bit checksum of this line (count + address + data)");
    data_lines++;
  }
  inside_line = 0; idx = 0; lsum = 0;
#if CF_R > 1
  next_addr = -1;      /* several records: contiguity is demanded within a line only, the byte count catches repetition */
#endif
}

static void nibble(unsigned v)
{
  if (!nib_phase) { nib_hi = v; nib_phase = 1; } else { nib_phase = 0; byte_in((nib_hi << 4) | v); }
}
static void ch(char c)
{
  if (expect_moto_type) { moto_type = c; expect_moto_type = 0; return; }
  if (c == '\n') { end_line(); return; }
  if (c >= '0' && c <= '9') { nibble(c - '0'); return; }
  if (c >= 'A' && c <= 'F') { nibble(c - 'A' + 10); return; }
  CHECK(!inside_line, "record start only at the beginning of a line");
  inside_line = 1; line_kind = c; idx = 0; lsum = 0; nib_phase = 0;
  if (c == 'S') expect_moto_type = 1;
}
static void vp_lit(FILE* f, char c)
{
#ifdef NO_DECODE
  (void)f; (void)c; return;
#endif
  if (f == stderr) { stderr_msgs++; return; }
  if (f == (FILE*)(void*)&targ) ch(c);
}
static void vp_num(FILE* f, char conv, int width, int zeropad, int longmod, unsigned long long val)
{
  (void)zeropad; (void)longmod;
#ifdef NO_DECODE
  return;
#endif
  if (f != (FILE*)(void*)&targ) return;
  if (conv == 'c') { ch((char)val); return; }
  CHECK(conv == 'X' && (width == 2 || width == 4 || width == 8), "numeric fields of the record formats are fixed-width upper-case hex bytes");
  CHECK(!nib_phase, "fields start on a byte boundary");
  CHECK(width >= 8 || val < (1ull << (4 * width)), "value fits its field");
  if (width == 8) { byte_in((unsigned)(val >> 24) & 0xff); byte_in((unsigned)(val >> 16) & 0xff); }
  if (width >= 4) byte_in((unsigned)(val >> 8) & 0xff);
  byte_in((unsigned)val & 0xff);
}
static void vp_str(FILE* f, const char* s, int width, int leftalign) { (void)f; (void)s; (void)width; (void)leftalign; }

void harness(void)
{
  unsigned long long s, e;
  cf_load();
  LOAD(in_start); LOAD(in_stop); LOAD(in_relocate); LOAD(in_linelen); LOAD(in_reladr); LOAD(in_minmoto); LOAD(in_rec5); LOAD(in_sepmoto); LOAD(in_motooccured);
  /* one long-form data record, byte granular, CODE segment */
  in_rkind[0] = 0; in_rgran[0] = 1; in_rseg[0] = SegCode;
  ASSUME(in_rcpu[0] != 0 && in_rlen[0] >= 1 && in_rlen[0] <= CF_L);
#if CF_R > 1
  /* second long-form data record of the same CPU, address ranges disjoint (either order); whole address space selected, no relocation */
  in_rkind[1] = 0; in_rgran[1] = 1; in_rseg[1] = SegCode; in_rcpu[1] = in_rcpu[0];
  ASSUME(in_rlen[1] >= 1 && in_rlen[1] <= CF_L && in_rstart[1] <= 0x7ffffff0u);
  ASSUME((unsigned long long)in_rstart[0] + in_rlen[0] <= in_rstart[1] || (unsigned long long)in_rstart[1] + in_rlen[1] <= in_rstart[0]);
  ASSUME(in_start == 0 && in_stop == 0x7fffffffu && in_relocate == 0 && in_reladr == 0);
#endif
  cf_build();
  src.kind = VF_READ; src.data = cf_buf; src.size = cf_size; src.cap = CF_CAP;
  targ.kind = VF_WIT; targ.wit_off = -1;
  TargFile = (FILE*)(void*)&targ;
  ASSUME(in_linelen == 2 || in_linelen == 4);
  ASSUME(in_reladr <= 1 && in_rec5 <= 1 && in_sepmoto <= 1 && in_motooccured <= 1 && in_minmoto >= 1 && in_minmoto <= 3);
  ASSUME(in_start <= in_stop);
  StartAdr[SegCode] = in_start; StopAdr[SegCode] = in_stop; LineLen = in_linelen; Relocate = (LargeInt)(LongInt)in_relocate; RelAdr = in_reladr;
  ForceSegment = SegNone; IntelMode = 0; MultiMode = 0; MinMoto = in_minmoto; Rec5 = in_rec5; SepMoto = in_sepmoto; AVRLen = 3;
  DestFormat = FMT; FormatOccured = in_motooccured ? eMotoOccured : 0; MaxMoto = 0; MaxIntel = 0; EntryAdrPresent = False;
  QuietMode = True; DoFilter = False; CFormat[0] = 0; strcpy(TargName, "t");
  /* stated bounds: addresses inside the format's address space, no wrap-around in relocation */
#if FMTN == 2 || FMTN == 5
  ASSUME(in_rstart[0] <= 0xfff0u && (LongInt)in_relocate >= -0x1000 && (LongInt)in_relocate <= 0x1000);
#else
  ASSUME(in_rstart[0] <= 0x7ffffff0u && (LongInt)in_relocate >= -0x10000 && (LongInt)in_relocate <= 0x10000);
#endif
  /* expected selected range in hex addresses */
  s = in_rstart[0] > in_start ? in_rstart[0] : in_start;
  e = (unsigned long long)in_rstart[0] + in_rlen[0] - 1; if (e > in_stop) e = in_stop;
  exp_any = s <= e;
  if (exp_any)
  {
    long long off = (long long)(LongInt)in_relocate - (in_reladr ? (long long)in_start : 0);
    ASSUME((long long)s + off >= 0);
#if FMTN == 2 || FMTN == 5
    ASSUME((long long)e + off <= 0xffff);
#elif FMTN == 3
    ASSUME((long long)e + off <= 0xfffff);
#else
    ASSUME((long long)e + off <= 0x7fffffffll);
#endif
    exp_first = (unsigned long long)((long long)s + off); exp_last = (unsigned long long)((long long)e + off);
  }

#if CF_R > 1
  exp_any2 = 1; exp_first2 = in_rstart[1]; exp_last2 = (unsigned long long)in_rstart[1] + in_rlen[1] - 1;
#if FMTN == 2 || FMTN == 5
  ASSUME(exp_last2 <= 0xffff);
#elif FMTN == 3
  ASSUME(exp_last2 <= 0xfffff);
#endif
#endif
  ProcessFile(srcname, 0);

  CHECK(vp_unmodelled == 0 && syntax_err == 0, "output is made of well-formed records");
  CHECK(!inside_line, "the last record is terminated by a newline");
#if CF_R > 1
  CHECK(data_bytes == (unsigned long)in_rlen[0] + in_rlen[1], "every byte of both records is emitted exactly once, nothing else");
  if (in_rstart[1] < in_rstart[0]) WITNESS("second record lies below the first");
#if FMTN == 1 || FMTN == 3 || FMTN == 4
  if ((in_rstart[0] >> 16) != ((in_rstart[0] + in_rlen[0] - 1) >> 16) && (in_rstart[1] >> 16) == (in_rstart[0] >> 16)) WITNESS("first record crosses a 64K boundary, second starts in the first one's bank");
#endif
#else
  CHECK(data_bytes == (exp_any ? (unsigned long)(e - s + 1) : 0), "every selected byte is emitted exactly once, nothing else");
#endif
  if (s5_seen) { CHECK(s5_count == s5_lines, "Motorola S5: count of the data records of its group");
#if FMTN == 1
    WITNESS("S5 record");
#endif
  }
  if (exp_any && data_lines >= 2) WITNESS("more than one data line");
#if CF_R == 1
  if (!exp_any) WITNESS("record clipped away");
#endif
  WITNESS("end");
}
