/* C06: P2HEX ProcessFile() (p2hex.c) on one data record built from symbolic fields, option state
 * symbolic.  The text written to the target goes through the printf monitor into an online decoder
 * for the selected format (written from the public format definitions): syntax, count fields,
 * checksums, and every decoded data byte must be the source record's byte at the decoded address.
 * Formats: Intel 8/16/32, Motorola S, MOS.  Terminator/entry records (written by main()) are outside.
 */
#include "vlib.h"
#include <stdio.h>
#include <stdlib.h>
#include "vfile.h"
#include "vprintf.h"
#define CF_R 1
#ifndef CF_L
#define CF_L 5
#endif
#include "cfbuild.h"
#include "headids.h"
#include "chunks.h"

static int exit_code = -1;
static void vexit(int code);
#define exit(n) vexit(n)
#define fprintf vp_fprintf
#define printf vp_printf
#define main p2hex_main
#include "src/toolutils.c"
#include "src/p2hex.c"
#undef main
#undef exit

char* getmessage(int n) { static char e[1]; (void)n; return e; }
char* catgetmessage(PMsgCat c, int n) { static char e[1]; (void)c; (void)n; return e; }
char* GetErrorMsg(int n) { static char e[1]; (void)n; return e; }
long FileSize(FILE* f) { return VF(f)->size; }
void InitChunk(ChunkList* c) { (void)c; }
Boolean AddChunk(ChunkList* c, LargeWord s, LargeWord l, Boolean w) { (void)c; (void)s; (void)l; (void)w; return False; }
static TFamilyDescr fam_known = { "FAM", 0x11, eHexFormatDefault };
PFamilyDescr FindFamilyById(Word Num) { (void)Num; return &fam_known; }

static VFILE src, targ;
static char srcname[2] = "s";
static VFILE* vf_open_hook(const char* name, const char* mode) { (void)mode; if (name == srcname) { src.pos = 0; return &src; } return &targ; }
static void vexit(int code)
{
  exit_code = code;
  CHECK(0, "p2hex must not abort on a well-formed code file");
#ifdef REPLAY
  _Exit(1);
#else
  __CPROVER_assume(0);
#endif
}

/* ---- inputs: options ---- */
LongWord in_start, in_stop, in_relocate;
unsigned char in_linelen, in_reladr, in_minmoto, in_rec5, in_sepmoto, in_motooccured;

/* ---- online decoder ---- */
#define LBMAX 16
static unsigned char lb[LBMAX]; static int lbn, nib_phase, nib_hi, in_line, stderr_msgs, syntax_err;
static char line_kind, moto_type;
static unsigned long long base_addr;            /* Intel extended address base */
static long long next_addr = -1;                 /* address expected for the next data byte (contiguity) */
static unsigned long data_bytes, data_lines, s5_count; static int s5_seen;
static unsigned long long exp_first, exp_last; static int exp_any;   /* clipped, relocated address range expected */

static unsigned char src_byte(unsigned long long hexaddr)
{
  /* hex address -> source address: undo relocation and relative addressing */
  unsigned long long a = hexaddr - (unsigned long long)(long long)(LargeInt)(LongInt)in_relocate + (in_reladr ? in_start : 0);
  return in_rdata[(a - in_rstart[0]) & 7];
}

static void data_byte(unsigned long long hexaddr, unsigned char v)
{
  CHECK(exp_any && hexaddr >= exp_first && hexaddr <= exp_last, "decoded address lies in the selected (clipped, relocated) range");
  if (exp_any && hexaddr >= exp_first && hexaddr <= exp_last)
    CHECK(v == src_byte(hexaddr), "decoded byte = source record byte at the decoded address");
  if (next_addr >= 0) CHECK((long long)hexaddr == next_addr, "data bytes are emitted in address order without gap or repetition");
  next_addr = (long long)hexaddr + 1;
  data_bytes++;
}

static void end_line(void)
{
  int k; unsigned sum = 0;
  CHECK(!nib_phase, "a line holds whole bytes");
  if (line_kind == ':')
  {
    CHECK(lbn >= 5 && lbn == lb[0] + 5, "Intel: byte count field = number of data bytes");
    for (k = 0; k < lbn; k++) sum += lb[k];
    CHECK((sum & 0xff) == 0, "Intel: two's complement checksum");
    if (lbn >= 5)
    {
      unsigned addr = ((unsigned)lb[1] << 8) | lb[2];
      if (lb[3] == 0) { for (k = 0; k < lb[0] && 4 + k < lbn - 1; k++) data_byte(base_addr + addr + k, lb[4 + k]); data_lines++; }
      else if (lb[3] == 4) { CHECK(lb[0] == 2 && addr == 0, "Intel: extended linear address record"); base_addr = ((unsigned long long)lb[4] << 24) | ((unsigned long long)lb[5] << 16); WITNESS("extended linear address record"); }
      else if (lb[3] == 2) { CHECK(lb[0] == 2 && addr == 0, "Intel: extended segment address record"); base_addr = (((unsigned long long)lb[4] << 8) | lb[5]) << 4; }
      else CHECK(0, "Intel: only record types 00/02/04 in the data part");
    }
  }
  else if (line_kind == 'S')
  {
    int alen = (moto_type == '1' || moto_type == '0' || moto_type == '5' || moto_type == '9') ? 2 : (moto_type == '2' || moto_type == '8') ? 3 : 4;
    CHECK(lbn >= 1 && lb[0] == lbn - 1, "Motorola: count field = bytes that follow");
    for (k = 0; k < lbn; k++) sum += lb[k];
    CHECK((sum & 0xff) == 0xff, "Motorola: one's complement checksum");
    if (moto_type >= '1' && moto_type <= '3')
    {
      unsigned long long addr = 0;
      for (k = 0; k < alen; k++) addr = (addr << 8) | lb[1 + k];
      for (k = 1 + alen; k < lbn - 1; k++) data_byte(addr + (k - 1 - alen), lb[k]);
      data_lines++;
    }
    else if (moto_type == '5') { s5_seen = 1; s5_count = ((unsigned)lb[1] << 8) | lb[2]; }
    else if (moto_type == '0') { }
    else if (moto_type >= '7' && moto_type <= '9') { WITNESS("separate terminator"); }
    else CHECK(0, "Motorola: record type");
  }
  else if (line_kind == ';')
  {
    unsigned addr, cks;
    CHECK(lbn >= 5 && lbn == lb[0] + 5, "MOS: byte count field = number of data bytes");
    for (k = 0; k < lbn - 2; k++) sum += lb[k];
    addr = ((unsigned)lb[1] << 8) | lb[2];
    cks = ((unsigned)lb[lbn - 2] << 8) | lb[lbn - 1];
    CHECK(cks == (sum & 0xffff), "MOS: 16-bit checksum of this line (count + address + data)");
    for (k = 0; k < lb[0] && 3 + k < lbn - 2; k++) data_byte(addr + k, lb[3 + k]);
    data_lines++;
  }
  else CHECK(0, "line start character");
  in_line = 0; lbn = 0;
}

static void nibble(unsigned v)
{
  CHECK(in_line, "hex digits only inside a record");
  if (!nib_phase) { nib_hi = v; nib_phase = 1; }
  else { if (lbn < LBMAX) lb[lbn] = (unsigned char)((nib_hi << 4) | v); else syntax_err++; lbn++; nib_phase = 0; }
}
static int expect_moto_type;
static void ch(char c)
{
  if (expect_moto_type) { moto_type = c; expect_moto_type = 0; return; }
  if (c == '\n') { end_line(); return; }
  if (c >= '0' && c <= '9') { nibble(c - '0'); return; }
  if (c >= 'A' && c <= 'F') { nibble(c - 'A' + 10); return; }
  CHECK(!in_line, "record start only at the beginning of a line");
  in_line = 1; line_kind = c; lbn = 0; nib_phase = 0;
  if (c == 'S') expect_moto_type = 1;
}
static void vp_lit(FILE* f, char c) { if (f == stderr) { stderr_msgs++; return; } if (f == (FILE*)(void*)&targ) ch(c); }
static void vp_num(FILE* f, char conv, int width, int zeropad, int longmod, unsigned long long val)
{
  int k;
  (void)zeropad; (void)longmod;
  if (f != (FILE*)(void*)&targ) return;
  if (conv == 'c') { ch((char)val); return; }
  CHECK(conv == 'X' && width >= 1 && width <= 8, "numeric fields of the record formats are fixed-width upper-case hex");
  CHECK(width >= 8 || val < (1ull << (4 * width)), "value fits its field");
  for (k = width - 1; k >= 0; k--) { unsigned n = (unsigned)((val >> (4 * k)) & 15); ch((char)(n < 10 ? '0' + n : 'A' + n - 10)); }
}
static void vp_str(FILE* f, const char* s, int width, int leftalign) { (void)f; (void)s; (void)width; (void)leftalign; }

void harness(void)
{
  unsigned long long s, e;
  cf_load();
  LOAD(in_start); LOAD(in_stop); LOAD(in_relocate); LOAD(in_linelen); LOAD(in_reladr); LOAD(in_minmoto); LOAD(in_rec5); LOAD(in_sepmoto); LOAD(in_motooccured);
  /* one long-form data record, byte granular, CODE segment */
  in_rkind[0] = 0; in_rgran[0] = 1; in_rseg[0] = SegCode;
  ASSUME(in_rcpu[0] != 0 && in_rlen[0] >= 1 && in_rlen[0] <= CF_L);
  cf_build();
  src.kind = VF_READ; src.data = cf_buf; src.size = cf_size; src.cap = CF_CAP;
  targ.kind = VF_WIT; targ.wit_off = -1;
  TargFile = (FILE*)(void*)&targ;
  ASSUME(in_linelen == 2 || in_linelen == 4);
  ASSUME(in_reladr <= 1 && in_rec5 <= 1 && in_sepmoto <= 1 && in_motooccured <= 1 && in_minmoto >= 1 && in_minmoto <= 3);
  ASSUME(in_start <= in_stop);
  StartAdr[SegCode] = in_start; StopAdr[SegCode] = in_stop; LineLen = in_linelen; Relocate = (LargeInt)(LongInt)in_relocate; RelAdr = in_reladr;
  ForceSegment = SegNone; IntelMode = 0; MultiMode = 0; MinMoto = in_minmoto; Rec5 = in_rec5; SepMoto = in_sepmoto; AVRLen = 3;
  DestFormat = FMT; FormatOccured = in_motooccured ? eMotoOccured : 0; MaxMoto = 0; MaxIntel = 0; EntryAdrPresent = False;
  QuietMode = True; DoFilter = False; CFormat[0] = 0; strcpy(TargName, "t");
  /* stated bounds: addresses inside the format's address space, no wrap-around in relocation */
#if FMT == eHexFormatIntel || FMT == eHexFormatMOS
  ASSUME(in_rstart[0] <= 0xfff0u && (LongInt)in_relocate >= -0x1000 && (LongInt)in_relocate <= 0x1000);
#else
  ASSUME(in_rstart[0] <= 0x7ffffff0u && (LongInt)in_relocate >= -0x10000 && (LongInt)in_relocate <= 0x10000);
#endif
  /* expected selected range in hex addresses */
  s = in_rstart[0] > in_start ? in_rstart[0] : in_start;
  e = (unsigned long long)in_rstart[0] + in_rlen[0] - 1; if (e > in_stop) e = in_stop;
  exp_any = s <= e;
  if (exp_any)
  {
    long long off = (long long)(LongInt)in_relocate - (in_reladr ? (long long)in_start : 0);
    ASSUME((long long)s + off >= 0);
#if FMT == eHexFormatIntel || FMT == eHexFormatMOS
    ASSUME((long long)e + off <= 0xffff);
#elif FMT == eHexFormatIntel16
    ASSUME((long long)e + off <= 0xfffff);
#else
    ASSUME((long long)e + off <= 0x7fffffffll);
#endif
    exp_first = (unsigned long long)((long long)s + off); exp_last = (unsigned long long)((long long)e + off);
  }

  ProcessFile(srcname, 0);

  CHECK(vp_unmodelled == 0 && syntax_err == 0, "output is made of well-formed records");
  CHECK(!in_line, "the last record is terminated by a newline");
  CHECK(data_bytes == (exp_any ? (unsigned long)(e - s + 1) : 0), "every selected byte is emitted exactly once, nothing else");
  if (s5_seen) { CHECK(s5_count == data_lines, "Motorola S5: count of data records"); WITNESS("S5 record"); }
  if (exp_any && data_lines >= 2) WITNESS("more than one data line");
  if (!exp_any) WITNESS("record clipped away");
  WITNESS("end");
}
