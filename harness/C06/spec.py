"""C06 obligations (DESIGN.md C06)."""
BASE = dict(src="p2hex.c", include=["p2hex.c", "toolutils.c"], units=["bpemu.c"], cuts={"bpemu.c": ["FileSize"]}, stubs=[], unwind=12,
            unwind_fn={"cf_load": 40, "cf_build": 10, "harness": 10, "vp_vfprintf": 22, "end_line": 18, "vp_num": 10},
            # ProcessFile loops by source line: 420 record loop (record, terminator, +1), 512 line loop (ceil(5/2)+bank split+1), 552 Atmel, 584 DSK, 599/665 data bytes per line (<= 4, +1), 707 S-terminator
            unwindset=["ProcessFile.4:4", "ProcessFile.0:6", "ProcessFile.1:5", "ProcessFile.2:5", "ProcessFile.3:6", "ProcessFile.5:6", "ProcessFile.6:6"], object_bits=13, timeout=1700, mem_gb=24,
            assumes=["stdio replaced by the memory-file model; target text through the printf monitor into an online per-format decoder",
                     "option callbacks not executed: option statics set directly", "AddChunk cut (overlap warning not the subject here)",
                     "one long-form data record, granularity 1, segment CODE, -m 0; terminator/entry records of main() outside",
                     "narrow %0NX fields: value width not checked (CBMC variadic model)"])
def f(name, fmt, bounds, **kw):
    d = dict(BASE); d.update(name=name, defs=["FMT=" + fmt, "FMTN=%d" % {"eHexFormatMotoS": 1, "eHexFormatIntel": 2, "eHexFormatIntel16": 3, "eHexFormatIntel32": 4, "eHexFormatMOS": 5}[fmt], "CF_L=5", "STRINGSIZE=16"], functions=["p2hex.c:ProcessFile", "toolutils.c:ReadRecordHeader", "toolutils.c:FilterOK"], bounds=bounds); d.update(kw); return d
B = "one record of 1..5 bytes at any start, window/-R relocation/-a relative addressing symbolic, line length 2 or 4"
OBLIGATIONS = [
    f("intel8", "eHexFormatIntel", B + ", addresses < 64K"),
    f("intel16", "eHexFormatIntel16", B + ", addresses < 1M"),
    f("intel32", "eHexFormatIntel32", B + ", addresses < 2G (bank switch inside a record reachable)"),
    f("motorola", "eHexFormatMotoS", B + ", -M 1..3, +5, separate terminators"),
    f("mos", "eHexFormatMOS", B + ", addresses < 64K"),
]
B2 = "two records of 1..2 bytes each at any disjoint starts in either order (state carried from one record to the next), line length 2 or 4, whole address space selected, no relocation"
def f2(name, fmt, tier):
    d = f(name, fmt, B2, tier=tier); d["defs"] = [x for x in d["defs"] if not x.startswith("CF_L")] + ["CF_L=2", "CF_R=2"]
    d["unwindset"] = ["ProcessFile.4:5", "ProcessFile.0:6", "ProcessFile.1:5", "ProcessFile.2:5", "ProcessFile.3:6", "ProcessFile.5:6", "ProcessFile.6:6"]
    return d
OBLIGATIONS += [f2("intel32_2rec", "eHexFormatIntel32", "quick"), f2("intel16_2rec", "eHexFormatIntel16", "quick"), f2("intel8_2rec", "eHexFormatIntel", "thorough"),
                f2("motorola_2rec", "eHexFormatMotoS", "thorough"), f2("mos_2rec", "eHexFormatMOS", "thorough")]
META = dict(outside=["terminator and entry records (main())", "Tektronix, TI-DSK, Atmel, Mico8, C array formats", "granularity 2/4 and -m 1..3", "more than two records, several files, default format per CPU family",
                     "-l up to 254"],
            assumptions=["malloc never fails"])
