/* C14 -- Intel 4004/4040: the real code4004.c (InitFields, MakeCode_4004, every Decode* handler,
 * register parsers) against a reference encoder written from the MCS-4/MCS-40 instruction set.
 * Mnemonic and register texts are concrete per form; operand values, PC and CPU variant symbolic.
 */
#include "vlib.h"
#include <ctype.h>
/* glibc implements isdigit() through a table behind __ctype_b_loc(), which CBMC has no body for */
#undef isdigit
#define isdigit(c) ((c) >= '0' && (c) <= '9')
#include "src/code4004.c"
#include "diag.h"
#include "insttab.h"
#include "evalstub.h"
#include "forms4004.h"

static int ev_range(IntType t, LargeInt* lo, LargeInt* hi)
{
  switch (t)
  {
    case UInt4: *lo = 0; *hi = 15; return 1;
    case UInt12: *lo = 0; *hi = 4095; return 1;
    case Int8: *lo = -128; *hi = 255; return 1;
    case Int4: *lo = -8; *hi = 15; return 1;
    default: return 0;
  }
}

/* ---- environment ---- */
int as_strcasecmp(char const* a, char const* b)
{ int i; for (i = 0; ; i++) { int ca = toupper((unsigned char)a[i]), cb = toupper((unsigned char)b[i]); if (ca != cb) return ca - cb; if (!ca) return 0; } }
static LargeWord pc;
LargeWord EProgCounter(void) { return pc; }
Boolean ChkMinCPUExt(CPUVar MinCPU, tErrorNum ErrorNum) { (void)ErrorNum; if (MomCPU < MinCPU) { WrError(ErrNum_InstructionNotSupported); return False; } return True; }
Boolean ChkSamePage(LargeWord CurrAddr, LargeWord DestAddr, unsigned PageBits, tSymbolFlags DestFlags)
{ LargeWord Mask = ~((1ul << PageBits) - 1); (void)DestFlags; if ((CurrAddr & Mask) != (DestAddr & Mask)) { WrError(ErrNum_TargOnDiffPage); return False; } return True; }
tRegEvalResult EvalStrRegExpressionAsOperand(const struct sStrComp* a, struct sRegDescr* b, struct sEvalResult* c, tSymbolSize d, Boolean e)
{ (void)a; (void)c; (void)d; (void)e; b->Reg = 0; WrError(ErrNum_InvReg); return eIsNoReg; }
CPUVar AddCPUWithArgs(char const* n, tCPUSwitchProc p, const tCPUArg* a) { static CPUVar next = 1; (void)n; (void)p; (void)a; return next++; }
static TFamilyDescr fam = { "4004/4040", 0x3f, eHexFormatDefault };
PFamilyDescr FindFamilyByName(char const* n) { (void)n; return &fam; }
void SetIntConstMode(tIntConstMode m) { (void)m; }

/* ---- inputs ---- */
unsigned char in_group, in_form, in_reg, in_is4040, in_altsyntax;
LargeInt in_v1, in_v2;
LargeWord in_pc;

static char op[8], a1[8], a2[8];
static tStrComp argstore[4];
static unsigned char codebuf[16];
static LargeWord pcs_store[SegCountPlusStruct], inits[SegCount], limits[SegCount];
static const char* const regname[16] = { "R0","R1","R2","R3","R4","R5","R6","R7","R8","R9","R10","R11","R12","R13","R14","R15" };
static const char* const pairname[8] = { "R0P","R1P","R2P","R3P","R4P","R5P","R6P","R7P" };
static const char* const pairname2[8] = { "R0R1","R2R3","R4R5","R6R7","R8R9","R10R11","R12R13","R14R15" };

static void run(const char* mn, const char* s1, const char* s2, int argc)
{
  strcpy(op, mn); OpPart.str.p_str = op;
  strcpy(a1, s1 ? s1 : ""); strcpy(a2, s2 ? s2 : "");
  argstore[1].str.p_str = a1; argstore[2].str.p_str = a2;
  ArgCnt = argc;
  ev_val[1] = in_v1; ev_val[2] = in_v2; ev_flags[1] = ev_flags[2] = eSymbolFlag_None;
  diag_reset(); CodeLen = 0;
  MakeCode_4004();
}
#define EXPECT1(b0, what) do { CHECK(diag_cnt == 0, what ": accepted"); CHECK(CodeLen == 1 && BAsmCode[0] == (Byte)(b0), what ": opcode byte"); } while (0)
#define EXPECT2(b0, b1, what) do { CHECK(diag_cnt == 0, what ": accepted"); CHECK(CodeLen == 2 && BAsmCode[0] == (Byte)(b0) && BAsmCode[1] == (Byte)(b1), what ": opcode bytes"); } while (0)
#define REJECT(what) do { CHECK(diag_errs > 0, what ": rejected with an error"); CHECK(CodeLen == 0, what ": nothing emitted"); } while (0)

void harness(void)
{
  int f, r;
  LOAD(in_group); LOAD(in_form); LOAD(in_reg); LOAD(in_is4040); LOAD(in_altsyntax); LOAD(in_v1); LOAD(in_v2); LOAD(in_pc);
#ifdef FORM
  in_form = FORM;                         /* one form per obligation */
#endif
  ASSUME(in_is4040 <= 1 && in_altsyntax <= 1 && in_reg < 16);
  ASSUME(in_pc <= 0xfff);

  PCs = pcs_store; SegInits = inits; SegLimits = limits;
  ArgStr = argstore; BAsmCode = codebuf; WAsmCode = (Word*)codebuf;
  code4004_init();                         /* CPU4004 = 1, CPU4040 = 2 */
  MomCPU = in_is4040 ? CPU4040 : CPU4004;
  SwitchTo_4004();                         /* the real InitFields() fills the table contract */
  CHECK(it_n > 0 && it_n <= IT_MAX, "instruction table built");
  pc = in_pc;

#if defined(G_FIXED)
  /* every operand-less instruction */
  ASSUME(in_form < NFIXED);
  for (f = 0; f < NFIXED; f++)
    if (f == in_form)
    {
      run(fixed_forms[f].mn, 0, 0, 0);
      if (fixed_forms[f].only4040 && !in_is4040) { REJECT("4040-only instruction on a 4004"); WITNESS("4040-only rejected"); }
      else EXPECT1(fixed_forms[f].op, "operand-less instruction");
    }
#elif defined(G_REG)
  /* INC Rn / ADD,SUB,LD,XCH Rn (optionally 'A,Rn') */
  {
    static const struct { const char* mn; unsigned char base; int acc; } t[5] = { {"INC", 0x60, 0}, {"ADD", 0x80, 1}, {"SUB", 0x90, 1}, {"LD", 0xA0, 1}, {"XCH", 0xB0, 1} };
    ASSUME(in_form < 5);
    f = in_form;
    for (r = 0; r < 16; r++)
      if (r == in_reg)
      {
        if (t[f].acc && in_altsyntax) run(t[f].mn, "A", regname[r], 2); else run(t[f].mn, regname[r], 0, 1);
        EXPECT1(t[f].base + r, "index-register instruction");
      }
  }
#elif defined(G_PAIR)
  /* SRC/FIN/JIN Rp, FIM Rp,data -- both pair spellings */
  {
    static const struct { const char* mn; unsigned char base; } t[3] = { {"SRC", 0x21}, {"FIN", 0x30}, {"JIN", 0x31} };
    ASSUME(in_form < 4 && in_reg < 8);
    f = in_form;
    for (r = 0; r < 8; r++)
      if (r == in_reg)
      {
        const char* pn = in_altsyntax ? pairname2[r] : pairname[r];
        if (f < 3) { run(t[f].mn, pn, 0, 1); EXPECT1(t[f].base + 2 * r, "register-pair instruction"); }
        else
        {
          run("FIM", pn, "x", 2);
          if (in_v2 < -128 || in_v2 > 255) REJECT("FIM data outside 8 bits");
          else EXPECT2(0x20 + 2 * r, in_v2 & 0xff, "FIM");
        }
      }
  }
#elif defined(G_IMM)
  /* BBL / LDM data4 */
  ASSUME(in_form < 2);
  run(in_form ? "LDM" : "BBL", "x", 0, 1);
  if (in_v1 < 0 || in_v1 > 15) { REJECT("4-bit immediate out of range"); WITNESS("immediate rejected"); }
  else EXPECT1((in_form ? 0xD0 : 0xC0) + in_v1, "4-bit immediate instruction");
#elif defined(G_JUMP)
  /* JUN/JMS addr12; JCN cond,addr8 (same page as the next instruction); ISZ Rn,addr8 */
  ASSUME(in_form < 4);
  if (in_form < 2)
  {
    run(in_form ? "JMS" : "JUN", "x", 0, 1);
    if (in_v1 < 0 || in_v1 > 4095) { REJECT("12-bit address out of range");
#if !defined(FORM) || FORM <= 1
      WITNESS("address rejected");
#endif
    }
    else EXPECT2((in_form ? 0x50 : 0x40) + ((in_v1 >> 8) & 15), in_v1 & 0xff, "JUN/JMS");
  }
  else if (in_form == 2)
  {
    run("JCN", in_altsyntax ? "TZ" : "C", "x", 2);
    if (in_v2 < 0 || in_v2 > 4095) REJECT("JCN target out of range");
    else if (((in_pc + 2) >> 8) != ((LargeWord)in_v2 >> 8)) { REJECT("JCN target outside the page of the next instruction");
#if !defined(FORM) || FORM == 2
      WITNESS("JCN page rejected");
#endif
    }
    else EXPECT2(0x10 + (in_altsyntax ? 5 : 2), in_v2 & 0xff, "JCN");
  }
  else
  {
    for (r = 0; r < 16; r++)
      if (r == in_reg)
      {
#ifdef KF_ONLY_isz_page_boundary
        ASSUME((in_pc & 0xff) >= 0xfe);
#endif
        run("ISZ", regname[r], "x", 2);
        if (in_v2 < 0 || in_v2 > 4095) REJECT("ISZ target out of range");
#ifdef KF_EXCLUDE_isz_page_boundary
        else if ((in_pc & 0xff) >= 0xfe) { }
#endif
        /* MCS-4: the 8-bit address refers to the page of the instruction FOLLOWING the two-byte ISZ */
        else if (((in_pc + 2) >> 8) != ((LargeWord)in_v2 >> 8)) { REJECT("ISZ target outside the page of the next instruction");
#if !defined(FORM) || FORM == 3
          WITNESS("ISZ page rejected");
#endif
        }
        else EXPECT2(0x70 + r, in_v2 & 0xff, "ISZ");
      }
  }
#endif
  WITNESS("end");
}
