/* C14 -- Intel 8080/8085 in Intel syntax: the real code85.c (InitFields, MakeCode_85, the Intel-syntax
 * decoders and the shared ADD/ADC/SUB/JP/CP/CALL/RET/IN/OUT handlers in 808x mode) against the 8080/8085
 * opcode map (8080/8085 Assembly Language Programming Manual).  Register texts concrete, immediate /
 * address / port / restart values symbolic, CPU variant symbolic.
 */
#include "vlib.h"
#include <ctype.h>
#include "src/code85.c"
#include "diag.h"
#include "insttab.h"
#include "evalstub.h"

static int ev_range(IntType t, LargeInt* lo, LargeInt* hi)
{
  switch (t)
  {
    case UInt3: *lo = 0; *hi = 7; return 1;
    case UInt6: *lo = 0; *hi = 63; return 1;
    case UInt8: *lo = 0; *hi = 255; return 1;
    case Int8: *lo = -128; *hi = 255; return 1;
    case UInt16: *lo = 0; *hi = 65535; return 1;
    case Int16: *lo = -32768; *hi = 65535; return 1;
    default: return 0;
  }
}
/* ---- environment ---- */
tZ80Syntax CurrZ80Syntax;
Boolean ChkZ80Syntax(tZ80Syntax InstrSyntax)
{
  if ((InstrSyntax == eSyntax808x) && (!(CurrZ80Syntax & eSyntax808x))) { WrError(ErrNum_Z80SyntaxExclusive); return False; }
  if ((InstrSyntax == eSyntaxZ80) && (!(CurrZ80Syntax & eSyntaxZ80))) { WrError(ErrNum_Z80SyntaxNotEnabled); return False; }
  return True;
}
Boolean DecodeIntelPseudo(Boolean BigEndian) { (void)BigEndian; return False; }
void ChkSpace(Byte AddrSpace, unsigned AddrSpaceMask) { (void)AddrSpace; (void)AddrSpaceMask; }
Boolean IsIndirect(char const* s) { return s[0] == '('; }
Boolean ChkMinCPUExt(CPUVar MinCPU, tErrorNum ErrorNum) { (void)ErrorNum; if (MomCPU < MinCPU) { WrError(ErrNum_InstructionNotSupported); return False; } return True; }
int as_strcasecmp(char const* a, char const* b)
{ int i; for (i = 0; ; i++) { int ca = toupper((unsigned char)a[i]), cb = toupper((unsigned char)b[i]); if (ca != cb) return ca - cb; if (!ca) return 0; } }
CPUVar AddCPUWithArgs(char const* n, tCPUSwitchProc p, const tCPUArg* a) { static CPUVar next = 1; (void)n; (void)p; (void)a; return next++; }
void SetIntConstMode(tIntConstMode m) { (void)m; }

/* ---- reference: 8080/8085 opcode map ---- */
typedef struct { const char* mn; unsigned char op; unsigned char mincpu; } row;     /* mincpu: 1 = 8080, 2 = 8085 */
static const row fixed_ops[] = {
  {"XCHG",0xEB,1},{"XTHL",0xE3,1},{"SPHL",0xF9,1},{"PCHL",0xE9,1},{"RC",0xD8,1},{"RNC",0xD0,1},{"RZ",0xC8,1},{"RNZ",0xC0,1},{"RP",0xF0,1},{"RM",0xF8,1},
  {"RPE",0xE8,1},{"RPO",0xE0,1},{"RET",0xC9,1},{"RLC",0x07,1},{"RRC",0x0F,1},{"RAL",0x17,1},{"RAR",0x1F,1},{"CMA",0x2F,1},{"STC",0x37,1},{"CMC",0x3F,1},
  {"DAA",0x27,1},{"EI",0xFB,1},{"DI",0xF3,1},{"NOP",0x00,1},{"HLT",0x76,1},{"RIM",0x20,2},{"SIM",0x30,2} };
static const row op16_ops[] = {
  {"STA",0x32,1},{"LDA",0x3A,1},{"SHLD",0x22,1},{"LHLD",0x2A,1},{"JMP",0xC3,1},{"JC",0xDA,1},{"JNC",0xD2,1},{"JZ",0xCA,1},{"JNZ",0xC2,1},{"JP",0xF2,1},{"JM",0xFA,1},
  {"JPE",0xEA,1},{"JPO",0xE2,1},{"CALL",0xCD,1},{"CC",0xDC,1},{"CNC",0xD4,1},{"CZ",0xCC,1},{"CNZ",0xC4,1},{"CP",0xF4,1},{"CM",0xFC,1},{"CPE",0xEC,1},{"CPO",0xE4,1} };
static const row op8_ops[] = { {"ADI",0xC6,1},{"ACI",0xCE,1},{"SUI",0xD6,1},{"SBI",0xDE,1},{"ANI",0xE6,1},{"XRI",0xEE,1},{"ORI",0xF6,1},{"CPI",0xFE,1} };
static const row io_ops[] = { {"IN",0xDB,1},{"OUT",0xD3,1} };
static const row alu_ops[] = { {"ADD",0x80,1},{"ADC",0x88,1},{"SUB",0x90,1},{"SBB",0x98,1},{"ANA",0xA0,1},{"XRA",0xA8,1},{"ORA",0xB0,1},{"CMP",0xB8,1} };
static const char* const r8[8] = { "B", "C", "D", "E", "H", "L", "M", "A" };
static const char* const rp[4] = { "B", "D", "H", "SP" };
static const char* const rpp[4] = { "B", "D", "H", "PSW" };
#define NEL(a) (sizeof(a) / sizeof(*(a)))

unsigned char in_form, in_r1, in_r2, in_cpu;
LargeInt in_v1, in_v2;
static char op[10], a1[6], a2[6];
static tStrComp argstore[4];
static unsigned char codebuf[16];
static LargeWord pcs_store[SegCountPlusStruct], inits[SegCount], limits[SegCount];

static void run(const char* mn, const char* s1, const char* s2, int argc)
{
  strcpy(op, mn); OpPart.str.p_str = op; strcpy(a1, s1 ? s1 : ""); strcpy(a2, s2 ? s2 : "");
  argstore[1].str.p_str = a1; argstore[1].str.capacity = sizeof(a1); argstore[2].str.p_str = a2; argstore[2].str.capacity = sizeof(a2); ArgCnt = argc;
  ev_val[1] = in_v1; ev_val[2] = in_v2; ev_flags[1] = ev_flags[2] = eSymbolFlag_None;
  diag_reset(); CodeLen = 0;
  MakeCode_85();
}
#define EXPECT1(b0, what) do { CHECK(diag_errs == 0, what ": accepted"); CHECK(CodeLen == 1 && BAsmCode[0] == (Byte)(b0), what ": opcode"); } while (0)
#define EXPECT2(b0, b1, what) do { CHECK(diag_errs == 0, what ": accepted"); CHECK(CodeLen == 2 && BAsmCode[0] == (Byte)(b0) && BAsmCode[1] == (Byte)(b1), what ": opcode and operand"); } while (0)
#define EXPECT3(b0, v, what) do { CHECK(diag_errs == 0, what ": accepted"); CHECK(CodeLen == 3 && BAsmCode[0] == (Byte)(b0) && BAsmCode[1] == (Byte)((v) & 0xff) && BAsmCode[2] == (Byte)(((v) >> 8) & 0xff), what ": opcode and little-endian address"); } while (0)
#define REJECT(what) do { CHECK(diag_errs > 0, what ": rejected with an error"); CHECK(CodeLen == 0, what ": nothing emitted"); } while (0)

void harness(void)
{
  unsigned f, r, q;
  LOAD(in_form); LOAD(in_r1); LOAD(in_r2); LOAD(in_cpu); LOAD(in_v1); LOAD(in_v2);
#ifdef FORM
  in_form = FORM;
#endif
#ifdef CPUV
  in_cpu = CPUV;          /* concrete: InitFields() builds a CPU-dependent table */
#endif
  ASSUME(in_cpu >= 1 && in_cpu <= 3 && in_r1 < 8 && in_r2 < 8);
  SegInits = inits; SegLimits = limits; PCs = pcs_store;
  ArgStr = argstore; BAsmCode = codebuf; WAsmCode = (Word*)codebuf;
  code85_init();
  MomCPU = in_cpu; CurrZ80Syntax = eSyntax808x;
  SwitchTo_85();
  CHECK(it_n > 0 && it_n <= IT_MAX, "instruction table built");

#if defined(G_FIXED)
  ASSUME(in_form < NEL(fixed_ops));
  for (f = 0; f < NEL(fixed_ops); f++) if (f == in_form)
  {
    run(fixed_ops[f].mn, 0, 0, 0);
    if (fixed_ops[f].mincpu > in_cpu) { REJECT("8085 instruction on an 8080"); }
    else EXPECT1(fixed_ops[f].op, "operand-less instruction");
  }
#elif defined(G_OP16)
  ASSUME(in_form < NEL(op16_ops));
  for (f = 0; f < NEL(op16_ops); f++) if (f == in_form)
  {
    run(op16_ops[f].mn, "x", 0, 1);
    if (in_v1 < -32768 || in_v1 > 65535) { REJECT("16-bit address out of range"); WITNESS("address rejected"); }
    else EXPECT3(op16_ops[f].op, in_v1, "instruction with a 16-bit address");
  }
#elif defined(G_OP8)
  ASSUME(in_form < NEL(op8_ops) + NEL(io_ops));
  for (f = 0; f < NEL(op8_ops); f++) if (f == in_form)
  {
    run(op8_ops[f].mn, "x", 0, 1);
    if (in_v1 < -128 || in_v1 > 255) { REJECT("8-bit immediate out of range"); WITNESS("immediate rejected"); }
    else EXPECT2(op8_ops[f].op, in_v1, "immediate instruction");
  }
  for (f = 0; f < NEL(io_ops); f++) if (f + NEL(op8_ops) == in_form)
  {
    run(io_ops[f].mn, "x", 0, 1);
    if (in_v1 < 0 || in_v1 > 255) REJECT("port number out of range");
    else EXPECT2(io_ops[f].op, in_v1, "IN/OUT");
  }
#elif defined(G_ALU)
  /* FORM selects the mnemonic */
  f = in_form;
  for (r = 0; r < 8; r++) if (r == in_r1) { run(alu_ops[f].mn, r8[r], 0, 1); EXPECT1(alu_ops[f].op + r, "accumulator operation with register"); }
#elif defined(G_MOV)
  /* FORM selects the destination register */
  r = in_form;
  for (q = 0; q < 8; q++) if (q == in_r2)
  {
    run("MOV", r8[r], r8[q], 2);
    if (r == 6 && q == 6) { REJECT("MOV M,M does not exist (its code is HLT)"); }
    else EXPECT1(0x40 + (r << 3) + q, "MOV r1,r2");
  }
#elif defined(G_REG8)
  ASSUME(in_form < 3);
  for (r = 0; r < 8; r++) if (r == in_r1)
  {
    if (in_form == 0) { run("MVI", r8[r], "x", 2); if (in_v2 < -128 || in_v2 > 255) REJECT("MVI data out of range"); else EXPECT2(0x06 + (r << 3), in_v2, "MVI r,data"); }
    else if (in_form == 1) { run("INR", r8[r], 0, 1); EXPECT1(0x04 + (r << 3), "INR r"); }
    else { run("DCR", r8[r], 0, 1); EXPECT1(0x05 + (r << 3), "DCR r"); }
  }
#elif defined(G_RP)
  ASSUME(in_form < 8 && in_r1 < 4);
  for (r = 0; r < 4; r++) if (r == in_r1)
  {
    switch (in_form)
    {
      case 0: run("LXI", rp[r], "x", 2); if (in_v2 < -32768 || in_v2 > 65535) REJECT("LXI data out of range"); else EXPECT3(0x01 + (r << 4), in_v2, "LXI rp,data16"); break;
      case 1: run("INX", rp[r], 0, 1); EXPECT1(0x03 + (r << 4), "INX rp"); break;
      case 2: run("DCX", rp[r], 0, 1); EXPECT1(0x0B + (r << 4), "DCX rp"); break;
      case 3: run("DAD", rp[r], 0, 1); EXPECT1(0x09 + (r << 4), "DAD rp"); break;
      case 4: run("PUSH", rpp[r], 0, 1); EXPECT1(0xC5 + (r << 4), "PUSH rp"); break;
      case 5: run("POP", rpp[r], 0, 1); EXPECT1(0xC1 + (r << 4), "POP rp"); break;
      case 6: if (r < 2) { run("LDAX", rp[r], 0, 1); EXPECT1(0x0A + (r << 4), "LDAX B/D"); } else if (r == 3) { run("LDAX", rp[r], 0, 1); REJECT("LDAX SP"); } break;
      default: if (r < 2) { run("STAX", rp[r], 0, 1); EXPECT1(0x02 + (r << 4), "STAX B/D"); } else if (r == 3) { run("STAX", rp[r], 0, 1); REJECT("STAX SP"); } break;
    }
  }
#elif defined(G_RST)
  run("RST", "x", 0, 1);
  if (in_v1 < 0 || in_v1 > 7) { REJECT("restart number outside 0..7"); WITNESS("restart rejected"); }
  else EXPECT1(0xC7 + (in_v1 << 3), "RST n");
#endif
  WITNESS("end");
}
