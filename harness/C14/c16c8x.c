/* C14 -- Microchip PIC16C6x/8x (14-bit core): the real code16c8x.c (InitFields, MakeCode_16c8x, all
 * Decode* handlers) against the opcode map of the PIC16F8X data sheet ("Instruction Set Summary").
 * Mnemonic and destination texts concrete per form; file address, literal, bit number, jump target,
 * PC and CPU variant symbolic.
 */
#include "vlib.h"
#include "src/code16c8x.c"
#include "diag.h"
#include "insttab.h"
#include "evalstub.h"

static int ev_range(IntType t, LargeInt* lo, LargeInt* hi)
{
  switch (t)
  {
    case UInt1: *lo = 0; *hi = 1; return 1;
    case UInt3: *lo = 0; *hi = 7; return 1;
    case UInt9: *lo = 0; *hi = 511; return 1;
    case Int8: *lo = -128; *hi = 255; return 1;
    case Int16: *lo = -32768; *hi = 65535; return 1;
    default: return 0;
  }
}
/* ---- environment ---- */
static LargeWord pc;
LargeWord ProgCounter(void) { return pc; }
void ChkSpace(Byte AddrSpace, unsigned AddrSpaceMask) { (void)AddrSpace; (void)AddrSpaceMask; }
int as_strcasecmp(char const* a, char const* b)
{ int i; for (i = 0; ; i++) { int ca = toupper((unsigned char)a[i]), cb = toupper((unsigned char)b[i]); if (ca != cb) return ca - cb; if (!ca) return 0; } }
CPUVar AddCPUWithArgs(char const* n, tCPUSwitchProc p, const tCPUArg* a) { static CPUVar next = 1; (void)n; (void)p; (void)a; return next++; }
static TFamilyDescr fam = { "16C8x", 0x70, eHexFormatDefault };
PFamilyDescr FindFamilyByName(char const* n) { (void)n; return &fam; }
void SetIntConstMode(tIntConstMode m) { (void)m; }

/* ---- reference: PIC16 14-bit opcode map ---- */
static const struct { const char* mn; unsigned short op; } byte_ops[] = {   /* 00 xxxx dfff ffff */
  {"ADDWF", 0x0700}, {"ANDWF", 0x0500}, {"COMF", 0x0900}, {"DECF", 0x0300}, {"DECFSZ", 0x0B00}, {"INCF", 0x0A00}, {"INCFSZ", 0x0F00},
  {"IORWF", 0x0400}, {"MOVF", 0x0800}, {"RLF", 0x0D00}, {"RRF", 0x0C00}, {"SUBWF", 0x0200}, {"SWAPF", 0x0E00}, {"XORWF", 0x0600} };
static const struct { const char* mn; unsigned short op; } f_ops[] = { {"CLRF", 0x0180}, {"MOVWF", 0x0080} };
static const struct { const char* mn; unsigned short op; } bit_ops[] = { {"BCF", 0x1000}, {"BSF", 0x1400}, {"BTFSC", 0x1800}, {"BTFSS", 0x1C00} };
static const struct { const char* mn; unsigned short op; } lit_ops[] = { {"ADDLW", 0x3E00}, {"ANDLW", 0x3900}, {"IORLW", 0x3800}, {"MOVLW", 0x3000}, {"RETLW", 0x3400}, {"SUBLW", 0x3C00}, {"XORLW", 0x3A00} };
static const struct { const char* mn; unsigned short op; } fixed_ops[] = { {"CLRW", 0x0100}, {"NOP", 0x0000}, {"CLRWDT", 0x0064}, {"SLEEP", 0x0063}, {"RETFIE", 0x0009}, {"RETURN", 0x0008} };

unsigned char in_form, in_dest, in_cpu;
LargeInt in_v1, in_v2;
LargeWord in_pc;
static char op[10], a1[4], a2[4];
static tStrComp argstore[4];
static unsigned short codebuf[16];
static LargeWord pcs_store[SegCountPlusStruct], inits[SegCount], limits[SegCount];

static void run(const char* mn, const char* s1, const char* s2, int argc)
{
  strcpy(op, mn); OpPart.str.p_str = op; strcpy(a1, s1 ? s1 : ""); strcpy(a2, s2 ? s2 : "");
  argstore[1].str.p_str = a1; argstore[2].str.p_str = a2; ArgCnt = argc;
  ev_val[1] = in_v1; ev_val[2] = in_v2; ev_flags[1] = ev_flags[2] = eSymbolFlag_None;
  diag_reset(); CodeLen = 0;
  MakeCode_16c8x();
}
#define EXPECT1(w, what) do { CHECK(diag_errs == 0, what ": accepted"); CHECK(CodeLen == 1 && WAsmCode[0] == (Word)(w), what ": instruction word"); } while (0)
#define REJECT(what) do { CHECK(diag_errs > 0, what ": rejected with an error"); CHECK(CodeLen == 0, what ": nothing emitted"); } while (0)
#define NEL(a) (sizeof(a) / sizeof(*(a)))

void harness(void)
{
  unsigned f;
  static const char* const dtxt[4] = { "W", "F", "0", "1" };
  LOAD(in_form); LOAD(in_dest); LOAD(in_cpu); LOAD(in_v1); LOAD(in_v2); LOAD(in_pc);
  ASSUME(in_dest < 4 && in_cpu >= 1 && in_cpu <= 6);
  SegInits = inits; SegLimits = limits; PCs = pcs_store;
  ArgStr = argstore; WAsmCode = codebuf; BAsmCode = (Byte*)codebuf;
  code16c8x_init();
  MomCPU = in_cpu;
  SwitchTo_16c8x();
  CHECK(it_n > 0 && it_n <= IT_MAX, "instruction table built");
  ASSUME(in_pc <= 0x1fff);
  pc = in_pc;

#if defined(G_BYTE)
  ASSUME(in_form < NEL(byte_ops));
  for (f = 0; f < NEL(byte_ops); f++) if (f == in_form)
  {
    unsigned d;
    for (d = 0; d < 4; d++) if (d == in_dest)
    {
      if (d >= 2) in_v2 = d - 2;            /* numeric destination: the evaluator returns the number written */
      run(byte_ops[f].mn, "x", dtxt[d], 2);
      if (in_v1 < 0 || in_v1 > 511) { REJECT("file register address outside 0..$1FF"); WITNESS("f rejected"); }
      else EXPECT1(byte_ops[f].op | ((d & 1) ? 0x80 : 0) | (in_v1 & 0x7f), "byte-oriented file register operation");
    }
  }
#elif defined(G_BIT)
  ASSUME(in_form < NEL(bit_ops));
  for (f = 0; f < NEL(bit_ops); f++) if (f == in_form)
  {
    run(bit_ops[f].mn, "x", "y", 2);
    if (in_v2 < 0 || in_v2 > 7) { REJECT("bit number outside 0..7"); WITNESS("bit rejected"); }
    else if (in_v1 < 0 || in_v1 > 511) REJECT("file register address outside 0..$1FF");
    else EXPECT1(bit_ops[f].op | ((in_v2 & 7) << 7) | (in_v1 & 0x7f), "bit-oriented file register operation");
  }
#elif defined(G_LIT)
  ASSUME(in_form < NEL(lit_ops) + NEL(f_ops) + NEL(fixed_ops));
  for (f = 0; f < NEL(lit_ops); f++) if (f == in_form)
  {
    run(lit_ops[f].mn, "x", 0, 1);
    if (in_v1 < -128 || in_v1 > 255) { REJECT("8-bit literal out of range"); WITNESS("literal rejected"); }
    else EXPECT1(lit_ops[f].op | (in_v1 & 0xff), "literal operation");
  }
  for (f = 0; f < NEL(f_ops); f++) if (f + NEL(lit_ops) == in_form)
  {
    run(f_ops[f].mn, "x", 0, 1);
    if (in_v1 < 0 || in_v1 > 511) REJECT("file register address outside 0..$1FF");
    else EXPECT1(f_ops[f].op | (in_v1 & 0x7f), "CLRF/MOVWF");
  }
  for (f = 0; f < NEL(fixed_ops); f++) if (f + NEL(lit_ops) + NEL(f_ops) == in_form)
  {
    run(fixed_ops[f].mn, 0, 0, 0);
    EXPECT1(fixed_ops[f].op, "operand-less instruction");
  }
#elif defined(G_JUMP)
  ASSUME(in_form < 2);
  {
    LargeWord limit = SegLimits[SegCode] - AddCodeSpace; unsigned base = in_form ? 0x2000 : 0x2800, n = 0, b;
    run(in_form ? "CALL" : "GOTO", "x", 0, 1);
    if (in_v1 < 0 || (LargeWord)in_v1 > limit || in_v1 > 65535) { REJECT("jump target outside the program memory of the selected device"); WITNESS("target rejected"); }
    else
    {
      CHECK(diag_errs == 0, "GOTO/CALL: accepted");
      /* page bits 11 and 12 that differ from the current PC are set up in PCLATH (register $0A, bits 3 and 4) first */
      for (b = 3; b <= 4; b++)
        if (((in_pc ^ (LargeWord)in_v1) >> (b + 8)) & 1)
        {
          unsigned w = (((in_v1 >> (b + 8)) & 1) ? 0x1400 : 0x1000) | (b << 7) | 0x0A;
          CHECK((unsigned)CodeLen > n && WAsmCode[n] == w, "GOTO/CALL: BSF/BCF PCLATH for a page bit that differs from the current page");
          n++; WITNESS("page fix-up");
        }
      CHECK((unsigned)CodeLen == n + 1 && WAsmCode[n] == (base | (in_v1 & 0x7ff)), "GOTO/CALL: opcode with the 11-bit address");
    }
  }
#endif
  WITNESS("end");
}
