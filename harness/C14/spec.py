"""C14 obligations (DESIGN.md C14)."""
B4004 = dict(src="c4004.c", include=["code4004.c"], units=["asmdef.c", "bpemu.c"], timeout=1500, stubs=["diag.c", "fmt_off.c"], unwind=20, unwind_fn={"harness": 60, "LookupInstTable": 260},
             assumes=["instruction hash table (asmitree.c) replaced by a list contract filled by the real InitFields()",
                      "operand expressions evaluate to arbitrary 64-bit values through a contract evaluator enforcing the documented IntType ranges",
                      "register aliases (REG symbols) not modelled: register operands are literal names", "mnemonics/operand texts concrete (upper case)"])
def g(name, d, fn, bounds, form=None):
    o = dict(B4004); o.update(name="i4004_" + name, defs=[d, "STRINGSIZE=16"] + (["FORM=%d" % form] if form is not None else []),
                              functions=["code4004.c:" + f for f in fn] + ["code4004.c:MakeCode_4004", "code4004.c:InitFields", "code4004.c:SwitchTo_4004"], bounds=bounds); return o
OBLIGATIONS = [
    g("fixed", "G_FIXED", ["DecodeFixed"], "all 45 operand-less mnemonics x {4004, 4040}"),
    g("imm", "G_IMM", ["DecodeImm4"], "BBL/LDM, any 64-bit operand value"),
]
for i, mn in enumerate(["inc", "add", "sub", "ld", "xch"]):
    OBLIGATIONS.append(g("reg_" + mn, "G_REG", ["DecodeOneReg", "DecodeAccReg", "DecodeReg", "DecodeRegCore", "RegVal"], mn.upper() + " x R0..R15 x both operand syntaxes", form=i))
for i, mn in enumerate(["src", "fin", "jin", "fim"]):
    OBLIGATIONS.append(g("pair_" + mn, "G_PAIR", ["DecodeOneRReg", "DecodeFIM", "DecodeRReg", "DecodeRRegCore"], mn.upper() + " x 8 pairs x both pair spellings, any 64-bit data value", form=i))
for i, mn in enumerate(["jun", "jms", "jcn", "isz"]):
    OBLIGATIONS.append(g("jump_" + mn, "G_JUMP", ["DecodeFullJmp", "DecodeJCN", "DecodeISZ"], mn.upper() + ", any 64-bit target, any PC 0..$FFF", form=i))
BPIC = dict(src="c16c8x.c", include=["code16c8x.c"], units=["asmdef.c", "bpemu.c"], stubs=["diag.c", "fmt_off.c"], unwind=24, unwind_fn={"harness": 30, "LookupInstTable": 260}, timeout=1500,
            assumes=B4004["assumes"] + ["destination operand given explicitly (W/F/0/1); the assembler's choice of a default destination is not an ISA matter"])
def gp(name, d, fn, bounds):
    o = dict(BPIC); o.update(name="pic16_" + name, defs=[d, "STRINGSIZE=16"], functions=["code16c8x.c:" + f for f in fn] + ["code16c8x.c:MakeCode_16c8x", "code16c8x.c:InitFields", "code16c8x.c:SwitchTo_16c8x"], bounds=bounds); return o
OBLIGATIONS += [
    gp("byte", "G_BYTE", ["DecodeAri", "EvalFExpression"], "14 byte-oriented operations x destination W/F/0/1, any 64-bit file address, 6 CPU variants"),
    gp("bit", "G_BIT", ["DecodeBit", "EvalFExpression"], "BCF/BSF/BTFSC/BTFSS, any 64-bit bit number and file address"),
    gp("lit", "G_LIT", ["DecodeLit", "DecodeF", "DecodeFixed"], "7 literal operations (any 64-bit literal), CLRF/MOVWF, 6 operand-less instructions"),
    gp("jump", "G_JUMP", ["DecodeJump"], "GOTO/CALL, any 64-bit target, any PC < $2000, 6 CPU variants (program memory size)"),
]
B85 = dict(src="c85.c", include=["code85.c"], units=["asmdef.c", "bpemu.c"], stubs=["diag.c", "fmt_off.c"], unwind=24, unwind_fn={"harness": 40, "LookupInstTable": 260}, timeout=1500,
           assumes=B4004["assumes"] + ["Intel (808x) syntax mode; Z80-syntax forms, undocumented 8085 instructions and pseudo instructions are not covered"])
def g85(name, d, fn, bounds, form=None, cpu=1):
    o = dict(B85); o.update(name="i8085_" + name + ("" if cpu == 1 else "_cpu%d" % cpu), defs=[d, "STRINGSIZE=16", "CPUV=%d" % cpu] + (["FORM=%d" % form] if form is not None else []),
                            functions=["code85.c:" + f for f in fn] + ["code85.c:MakeCode_85", "code85.c:InitFields", "code85.c:SwitchTo_85"], bounds=bounds); return o
OBLIGATIONS += [
    g85("fixed", "G_FIXED", ["DecodeFixed", "DecodeRET", "DecodeRLC"], "27 operand-less instructions on the 8080 (RIM/SIM rejected)"),
    g85("op16", "G_OP16", ["DecodeOp16", "DecodeJP", "DecodeCP", "DecodeCALL", "DecodeAdr_Z80"], "22 instructions with a 16-bit address, any 64-bit operand value"),
    g85("op8", "G_OP8", ["DecodeOp8", "DecodeINOUT"], "8 immediate instructions + IN/OUT, any 64-bit operand value"),
    g85("reg8", "G_REG8", ["DecodeMVI", "DecodeINR_DCR", "DecodeReg8"], "MVI/INR/DCR x 8 registers, any data value"),
    g85("rp", "G_RP", ["DecodeLXI", "DecodeINX_DCX", "DecodeDAD", "DecodePUSH_POP", "DecodeLDAX_STAX", "DecodeReg16"], "LXI/INX/DCX/DAD/PUSH/POP/LDAX/STAX x register pairs, any data value"),
    g85("rst", "G_RST", ["DecodeRST"], "RST with any 64-bit operand value"),
    g85("fixed", "G_FIXED", ["DecodeFixed", "DecodeRET", "DecodeRLC"], "27 operand-less instructions on the 8085", cpu=2),
    g85("fixed", "G_FIXED", ["DecodeFixed", "DecodeRET", "DecodeRLC"], "27 operand-less instructions on the 8085UNDOC", cpu=3),
    g85("rst", "G_RST", ["DecodeRST"], "RST with any 64-bit operand value (8085UNDOC: RST V is a separate form, not covered)", cpu=3),
    g85("rp", "G_RP", ["DecodeLXI", "DecodeINX_DCX", "DecodeDAD", "DecodePUSH_POP", "DecodeLDAX_STAX", "DecodeReg16"], "register-pair instructions on the 8085UNDOC", cpu=3),
]
for i, mn in enumerate(["add", "adc", "sub", "sbb", "ana", "xra", "ora", "cmp"]):
    OBLIGATIONS.append(g85("alu_" + mn, "G_ALU", ["DecodeALU", "DecodeADD", "DecodeADC", "DecodeSUB", "DecodeReg8"], mn.upper() + " x 8 registers", form=i))
for i, rn in enumerate("bcdehlma"):
    OBLIGATIONS.append(g85("mov_" + rn, "G_MOV", ["DecodeMOV", "DecodeReg8"], "MOV %s,r for 8 source registers" % rn.upper(), form=i))
BAVR = dict(src="cavr.c", include=["codeavr.c"], units=["asmdef.c", "bpemu.c"], stubs=["diag.c", "fmt_off.c"], unwind=24, unwind_fn={"harness": 40, "LookupInstTable": 260}, timeout=1500,
            assumes=B4004["assumes"] + ["megaAVR core (every instruction available), word-addressed code segment (CODESEGSIZE=1), 64K words of flash",
                                       "register operands spelled with two digits (R00..R39); register aliases (REG) not defined", "ConstLongInt cut to a decimal-number contract"])
def gavr(name, d, fn, bounds):
    o = dict(BAVR); o.update(name="avr_" + name, defs=[d, "STRINGSIZE=16"], functions=["codeavr.c:" + f for f in fn] + ["codeavr.c:MakeCode_AVR", "codeavr.c:InitFields", "codeavr.c:SwitchTo_AVR", "codeavr.c:DecodeReg", "codeavr.c:DecodeRegCore", "codeavr.c:DecodeArgReg", "codeavr.c:AppendCode"], bounds=bounds); return o
OBLIGATIONS += [
    gavr("fixed", "G_FIXED", ["DecodeFixed"], "27 operand-less instructions"),
    gavr("reg1", "G_REG1", ["DecodeReg1"], "10 one-register instructions x register number 0..39"),
    gavr("reg2", "G_REG2", ["DecodeReg2", "DecodeReg3"], "12 two-register instructions and 4 one-register aliases x register numbers 0..39"),
    gavr("imm", "G_IMM", ["DecodeImm", "DecodeCBR", "DecodeSER"], "7 register-immediate instructions, CBR, SER x register number 0..39, any 64-bit constant"),
    gavr("rel", "G_REL", ["DecodeRel", "DecodeRJMPCALL", "GetWordCodeAddress", "GetNextCodeAddress"], "18 conditional branches, RJMP, RCALL; any 64-bit target, any PC below 64K words"),
    gavr("bit", "G_BIT", ["DecodeBit", "DecodeBCLRSET"], "BLD/BST/SBRC/SBRS x register 0..39 x any bit value; BSET/BCLR any value"),
    dict(gavr("pbit", "G_PBIT", ["DecodePBit", "DecodeBitArg", "DecodeBitArg2"], "CBI/SBI/SBIC/SBIS with a plain-number address and bit operand, any 64-bit values"), object_bits=12, units=["asmdef.c", "bpemu.c", "strcomp.c"]),
    gavr("io", "G_IO", ["DecodeINOUT", "DecodeADIW", "DecodeMOVW", "DecodeMULS", "DecodeLDSSTS", "DecodeJMPCALL"], "IN, OUT, ADIW, SBIW, MOVW, MULS, LDS, STS, JMP, CALL with register numbers 0..39 and any 64-bit constant"),
]
META = dict(outside=["6502/65C02, Z80, MSP430 (no harness)", "AVR: LD/ST/LDD/STD/LPM/ELPM/FMUL*, bit symbols (BIT) and 'addr.bit' operands, byte-addressed code segment, cores below megaAVR, register aliases", "8080/8085: Z80-syntax mode, undocumented 8085 instructions", "PIC16: default destination, OPTION/TRIS/BANKSEL/SFR/ZERO/DATA pseudo forms", "mnemonic hash dispatch (asmitree.c)", "operand text parsing beyond the concrete forms",
                     "JCN with a numeric condition, DATA/DS/REG pseudo instructions"],
            assumptions=["malloc never fails"])
