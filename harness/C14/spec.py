"""C14 obligations (DESIGN.md C14)."""
B4004 = dict(src="c4004.c", include=["code4004.c"], units=["asmdef.c", "bpemu.c"], timeout=1500, stubs=["diag.c", "fmt_off.c"], unwind=20, unwind_fn={"harness": 60, "LookupInstTable": 260},
             assumes=["instruction hash table (asmitree.c) replaced by a list contract filled by the real InitFields()",
                      "operand expressions evaluate to arbitrary 64-bit values through a contract evaluator enforcing the documented IntType ranges",
                      "register aliases (REG symbols) not modelled: register operands are literal names", "mnemonics/operand texts concrete (upper case)"])
def g(name, d, fn, bounds, form=None):
    o = dict(B4004); o.update(name="i4004_" + name, defs=[d, "STRINGSIZE=16"] + (["FORM=%d" % form] if form is not None else []),
                              functions=["code4004.c:" + f for f in fn] + ["code4004.c:MakeCode_4004", "code4004.c:InitFields", "code4004.c:SwitchTo_4004"], bounds=bounds); return o
OBLIGATIONS = [
    g("fixed", "G_FIXED", ["DecodeFixed"], "all 45 operand-less mnemonics x {4004, 4040}"),
    g("imm", "G_IMM", ["DecodeImm4"], "BBL/LDM, any 64-bit operand value"),
]
for i, mn in enumerate(["inc", "add", "sub", "ld", "xch"]):
    OBLIGATIONS.append(g("reg_" + mn, "G_REG", ["DecodeOneReg", "DecodeAccReg", "DecodeReg", "DecodeRegCore", "RegVal"], mn.upper() + " x R0..R15 x both operand syntaxes", form=i))
for i, mn in enumerate(["src", "fin", "jin", "fim"]):
    OBLIGATIONS.append(g("pair_" + mn, "G_PAIR", ["DecodeOneRReg", "DecodeFIM", "DecodeRReg", "DecodeRRegCore"], mn.upper() + " x 8 pairs x both pair spellings, any 64-bit data value", form=i))
for i, mn in enumerate(["jun", "jms", "jcn", "isz"]):
    OBLIGATIONS.append(g("jump_" + mn, "G_JUMP", ["DecodeFullJmp", "DecodeJCN", "DecodeISZ"], mn.upper() + ", any 64-bit target, any PC 0..$FFF", form=i))
META = dict(outside=["8080/8085, 6502/65C02, Z80, MSP430, PIC16C8x, AVR (harnesses pending)", "mnemonic hash dispatch (asmitree.c)", "operand text parsing beyond the concrete forms",
                     "JCN with a numeric condition, DATA/DS/REG pseudo instructions"],
            assumptions=["malloc never fails"])
