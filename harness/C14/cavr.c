/* C14 -- Atmel AVR (megaAVR core, word-addressed code segment): the real codeavr.c (InitFields, MakeCode_AVR and the
 * handlers of the register, immediate, branch, bit and I/O forms) against the AVR instruction set manual's opcode
 * formats.  Register numbers, immediates, bit numbers, I/O addresses, branch targets and the PC are symbolic.
 */
#include "vlib.h"
#include <ctype.h>
#include "src/codeavr.c"
#include "diag.h"
#include "insttab.h"
#include "evalstub.h"

static int ev_range(IntType t, LargeInt* lo, LargeInt* hi)
{
  switch (t)
  {
    case UInt3: *lo = 0; *hi = 7; return 1;
    case UInt5: *lo = 0; *hi = 31; return 1;
    case UInt6: *lo = 0; *hi = 63; return 1;
    case Int8: *lo = -128; *hi = 255; return 1;
    case UInt16: *lo = 0; *hi = 65535; return 1;
    default: return 0;
  }
}
/* ---- environment ---- */
static LargeWord pc;
LargeWord EProgCounter(void) { return pc; }
Boolean DecodeIntelPseudo(Boolean BigEndian) { (void)BigEndian; return False; }
void ChkSpace(Byte AddrSpace, unsigned AddrSpaceMask) { (void)AddrSpace; (void)AddrSpaceMask; }
void SetIntConstMode(tIntConstMode m) { (void)m; }
void AddONOFF(char const* InstName, Boolean* Flag, char const* FlagName, Boolean Persist) { (void)InstName; (void)Flag; (void)FlagName; (void)Persist; }
void SetFlag(Boolean* Flag, char const* Name, Boolean Wert) { (void)Name; *Flag = Wert; }
IntType GetSmallestUIntType(LargeWord MaxValue) { (void)MaxValue; return UInt16; }      /* 64K words of flash, 64K data space */
int as_strcasecmp(char const* a, char const* b)
{ int i; for (i = 0; ; i++) { int ca = toupper((unsigned char)a[i]), cb = toupper((unsigned char)b[i]); if (ca != cb) return ca - cb; if (!ca) return 0; } }
/* decimal number of the register name (contract of strutil.c ConstLongInt for base 10, at most 2 digits here) */
LargeInt ConstLongInt(char const* inp, Boolean* pErr, LongInt Base)
{
  LargeInt v = 0; int i; (void)Base;
  if (!inp[0]) { *pErr = False; return 0; }
  for (i = 0; i < 2 && inp[i]; i++) { if (inp[i] < '0' || inp[i] > '9') { *pErr = False; return 0; } v = v * 10 + (inp[i] - '0'); }
  *pErr = (inp[i] == 0);
  return v;
}
tRegEvalResult EvalStrRegExpressionAsOperand(tStrComp const* pArg, struct sRegDescr* pResult, struct sEvalResult* pEvalResult, tSymbolSize ReqSize, Boolean MustBeReg)
{ (void)pArg; (void)pEvalResult; (void)ReqSize; (void)MustBeReg; pResult->Reg = 0; WrError(ErrNum_InvReg); return eIsNoReg; }   /* no register aliases defined */

static const tCPUProps mega = { "MEGA", 0xfff, 0x2000, 0x0fff, IOAreaExtSize, True, eCoreMega };

typedef struct { const char* mn; unsigned short op; } row;
static const row fixed_ops[] = { {"IJMP",0x9409},{"ICALL",0x9509},{"RET",0x9508},{"RETI",0x9518},{"SEC",0x9408},{"CLC",0x9488},{"SEN",0x9428},{"CLN",0x94A8},{"SEZ",0x9418},{"CLZ",0x9498},
  {"SEI",0x9478},{"CLI",0x94F8},{"SES",0x9448},{"CLS",0x94C8},{"SEV",0x9438},{"CLV",0x94B8},{"SET",0x9468},{"CLT",0x94E8},{"SEH",0x9458},{"CLH",0x94D8},{"NOP",0x0000},{"SLEEP",0x9588},
  {"WDR",0x95A8},{"EIJMP",0x9419},{"EICALL",0x9519},{"SPM",0x95E8},{"BREAK",0x9598} };
static const row reg1_ops[] = { {"COM",0x9400},{"NEG",0x9401},{"INC",0x9403},{"DEC",0x940A},{"PUSH",0x920F},{"POP",0x900F},{"LSR",0x9406},{"ROR",0x9407},{"ASR",0x9405},{"SWAP",0x9402} };
static const row reg2_ops[] = { {"ADD",0x0C00},{"ADC",0x1C00},{"SUB",0x1800},{"SBC",0x0800},{"AND",0x2000},{"OR",0x2800},{"EOR",0x2400},{"CPSE",0x1000},{"CP",0x1400},{"CPC",0x0400},{"MOV",0x2C00},{"MUL",0x9C00} };
static const row reg3_ops[] = { {"CLR",0x2400},{"TST",0x2000},{"LSL",0x0C00},{"ROL",0x1C00} };     /* Rd with itself */
static const row imm_ops[] = { {"SUBI",0x5000},{"SBCI",0x4000},{"ANDI",0x7000},{"ORI",0x6000},{"SBR",0x6000},{"CPI",0x3000},{"LDI",0xE000} };
static const row rel_ops[] = { {"BRCC",0xF400},{"BRCS",0xF000},{"BREQ",0xF001},{"BRGE",0xF404},{"BRSH",0xF400},{"BRID",0xF407},{"BRIE",0xF007},{"BRLO",0xF000},{"BRLT",0xF004},{"BRMI",0xF002},
  {"BRNE",0xF401},{"BRHC",0xF405},{"BRHS",0xF005},{"BRPL",0xF402},{"BRTC",0xF406},{"BRTS",0xF006},{"BRVC",0xF403},{"BRVS",0xF003} };
static const row bit_ops[] = { {"BLD",0xF800},{"BST",0xFA00},{"SBRC",0xFC00},{"SBRS",0xFE00} };
#define NEL(a) (sizeof(a) / sizeof(*(a)))

unsigned char in_form, in_r1, in_r2;
LargeInt in_v1, in_v2;
LargeWord in_pc;
static char op[10], a1[6], a2[6];
static tStrComp argstore[4];
static Word codebuf[8];
static LargeWord pcs_store[SegCountPlusStruct], inits[SegCount], limits[SegCount];

static void regtxt(char* t, unsigned r) { t[0] = 'R'; t[1] = (char)('0' + r / 10); t[2] = (char)('0' + r % 10); t[3] = 0; }   /* two-digit spelling R00..R39 */
static void run(const char* mn, int argc)
{
  strcpy(op, mn); OpPart.str.p_str = op;
  argstore[1].str.p_str = a1; argstore[1].str.capacity = sizeof(a1); argstore[2].str.p_str = a2; argstore[2].str.capacity = sizeof(a2); ArgCnt = argc;
  ev_val[1] = in_v1; ev_val[2] = in_v2; ev_flags[1] = ev_flags[2] = eSymbolFlag_None;
  diag_reset(); CodeLen = 0;
  MakeCode_AVR();
}
#define EXPECT1(w, what) do { CHECK(diag_errs == 0, what ": accepted"); CHECK(CodeLen == 1 && WAsmCode[0] == (Word)(w), what ": instruction word"); } while (0)
#define EXPECT2(w, w2, what) do { CHECK(diag_errs == 0, what ": accepted"); CHECK(CodeLen == 2 && WAsmCode[0] == (Word)(w) && WAsmCode[1] == (Word)(w2), what ": two instruction words"); } while (0)
#define REJECT(what) do { CHECK(diag_errs > 0, what ": rejected with an error"); CHECK(CodeLen == 0, what ": nothing emitted"); } while (0)

void harness(void)
{
  unsigned f, d, r;
  LOAD(in_form); LOAD(in_r1); LOAD(in_r2); LOAD(in_v1); LOAD(in_v2); LOAD(in_pc);
  ASSUME(in_r1 < 40 && in_r2 < 40 && in_pc <= 0xffff);
  SegInits = inits; SegLimits = limits; PCs = pcs_store;
  ArgStr = argstore; WAsmCode = codebuf; BAsmCode = (Byte*)codebuf;
  CodeSegSize = 1;                                  /* word-addressed code segment */
  SwitchTo_AVR((void*)&mega);
  CHECK(it_n > 0 && it_n <= IT_MAX, "instruction table built");
  pc = in_pc; d = in_r1; r = in_r2;
  strcpy(a1, "x"); strcpy(a2, "x");

#if defined(G_FIXED)
  ASSUME(in_form < NEL(fixed_ops));
  for (f = 0; f < NEL(fixed_ops); f++) if (f == in_form) { run(fixed_ops[f].mn, 0); EXPECT1(fixed_ops[f].op, "operand-less instruction"); }
#elif defined(G_REG1)
  ASSUME(in_form < NEL(reg1_ops));
  regtxt(a1, d);
  for (f = 0; f < NEL(reg1_ops); f++) if (f == in_form)
  {
    run(reg1_ops[f].mn, 1);
    if (d > 31) { REJECT("register number above 31"); WITNESS("register rejected"); }
    else EXPECT1(reg1_ops[f].op | (d << 4), "one-register instruction: dddd d in bits 8..4");
  }
#elif defined(G_REG2)
  ASSUME(in_form < NEL(reg2_ops) + NEL(reg3_ops));
  regtxt(a1, d); regtxt(a2, r);
  for (f = 0; f < NEL(reg2_ops); f++) if (f == in_form)
  {
    run(reg2_ops[f].mn, 2);
    if (d > 31 || r > 31) REJECT("register number above 31");
    else EXPECT1(reg2_ops[f].op | (d << 4) | (r & 15) | ((r & 16) << 5), "two-register instruction: rd dddd rrrr");
  }
  for (f = 0; f < NEL(reg3_ops); f++) if (f + NEL(reg2_ops) == in_form)
  {
    run(reg3_ops[f].mn, 1);
    if (d > 31) REJECT("register number above 31");
    else EXPECT1(reg3_ops[f].op | (d << 4) | (d & 15) | ((d & 16) << 5), "one-register alias of a two-register instruction (Rd,Rd)");
  }
#elif defined(G_IMM)
  ASSUME(in_form < NEL(imm_ops) + 2);
  regtxt(a1, d);
  for (f = 0; f < NEL(imm_ops); f++) if (f == in_form)
  {
    run(imm_ops[f].mn, 2);
    if (d < 16 || d > 31) { REJECT("immediate instructions take R16..R31"); WITNESS("low register rejected"); }
    else if (in_v2 < -128 || in_v2 > 255) REJECT("8-bit constant out of range");
    else EXPECT1(imm_ops[f].op | ((in_v2 & 0xf0) << 4) | (in_v2 & 15) | ((d & 15) << 4), "register-immediate instruction: KKKK dddd KKKK");
  }
  if (in_form == NEL(imm_ops))
  {
    run("CBR", 2);
    if (d < 16 || d > 31) REJECT("CBR takes R16..R31");
    else if (in_v2 < -128 || in_v2 > 255) REJECT("8-bit constant out of range");
    else EXPECT1(0x7000 | (((in_v2 ^ 0xff) & 0xf0) << 4) | ((in_v2 ^ 0xff) & 15) | ((d & 15) << 4), "CBR Rd,K = ANDI Rd,$FF-K");
  }
  if (in_form == NEL(imm_ops) + 1)
  {
    run("SER", 1);
    if (d < 16 || d > 31) REJECT("SER takes R16..R31");
    else EXPECT1(0xEF0F | ((d & 15) << 4), "SER Rd = LDI Rd,$FF");
  }
#elif defined(G_REL)
  ASSUME(in_form < NEL(rel_ops) + 2);
  {
    long long k = (long long)in_v1 - ((long long)in_pc + 1);
    for (f = 0; f < NEL(rel_ops); f++) if (f == in_form)
    {
      run(rel_ops[f].mn, 1);
      if (in_v1 < 0 || in_v1 > 65535) REJECT("target outside the program memory");
      else if (k < -64 || k > 63) { REJECT("conditional branch beyond -64..+63 words"); WITNESS("branch too far"); }
      else EXPECT1(rel_ops[f].op | ((k & 0x7f) << 3), "conditional branch: 7-bit word offset relative to PC+1");
    }
    for (f = 0; f < 2; f++) if (f + NEL(rel_ops) == in_form)
    {
      run(f ? "RCALL" : "RJMP", 1);
      if (in_v1 < 0 || in_v1 > 65535) REJECT("target outside the program memory");
      else if (k < -2048 || k > 2047) REJECT("relative jump beyond -2048..+2047 words");
      else EXPECT1((f ? 0xD000 : 0xC000) | (k & 0xfff), "RJMP/RCALL: 12-bit word offset relative to PC+1");
    }
  }
#elif defined(G_BIT)
  ASSUME(in_form < NEL(bit_ops) + 2);
  regtxt(a1, d);
  for (f = 0; f < NEL(bit_ops); f++) if (f == in_form)
  {
    run(bit_ops[f].mn, 2);
    if (d > 31) REJECT("register number above 31");
    else if (in_v2 < 0 || in_v2 > 7) { REJECT("bit number outside 0..7"); WITNESS("bit rejected"); }
    else EXPECT1(bit_ops[f].op | (d << 4) | in_v2, "register bit instruction: d dddd 0bbb");
  }
  for (f = 0; f < 2; f++) if (f + NEL(bit_ops) == in_form)
  {
    strcpy(a1, "x");
    run(f ? "BCLR" : "BSET", 1);
    if (in_v1 < 0 || in_v1 > 7) REJECT("flag number outside 0..7");
    else EXPECT1((f ? 0x9488 : 0x9408) | (in_v1 << 4), "BSET/BCLR s");
  }
#elif defined(G_IO)
  ASSUME(in_form < 10);
  switch (in_form)
  {
    case 0: regtxt(a1, d); run("IN", 2);
      if (d > 31) REJECT("register number above 31"); else if (in_v2 < 0 || in_v2 > 63) { REJECT("I/O address outside 0..63"); WITNESS("port rejected"); }
      else EXPECT1(0xB000 | (d << 4) | (in_v2 & 15) | ((in_v2 & 0x30) << 5), "IN Rd,A: 1011 0AAd dddd AAAA"); break;
    case 1: regtxt(a2, r); run("OUT", 2);
      if (r > 31) REJECT("register number above 31"); else if (in_v1 < 0 || in_v1 > 63) REJECT("I/O address outside 0..63");
      else EXPECT1(0xB800 | (r << 4) | (in_v1 & 15) | ((in_v1 & 0x30) << 5), "OUT A,Rr: 1011 1AAr rrrr AAAA"); break;
    case 2: case 3: regtxt(a1, d); run(in_form == 2 ? "ADIW" : "SBIW", 2);
      if (d != 24 && d != 26 && d != 28 && d != 30) { REJECT("ADIW/SBIW take R24, R26, R28 or R30"); WITNESS("pair rejected"); }
      else if (in_v2 < 0 || in_v2 > 63) REJECT("constant outside 0..63");
      else EXPECT1((in_form == 2 ? 0x9600 : 0x9700) | (((d - 24) / 2) << 4) | (in_v2 & 15) | ((in_v2 & 0x30) << 2), "ADIW/SBIW: KKdd KKKK"); break;
    case 4: regtxt(a1, d); regtxt(a2, r); run("MOVW", 2);
      if (d > 31 || r > 31 || (d & 1) || (r & 1)) REJECT("MOVW takes even registers");
      else EXPECT1(0x0100 | ((d / 2) << 4) | (r / 2), "MOVW Rd,Rr: dddd rrrr (register pairs)"); break;
    case 5: regtxt(a1, d); regtxt(a2, r); run("MULS", 2);
      if (d < 16 || d > 31 || r < 16 || r > 31) REJECT("MULS takes R16..R31");
      else EXPECT1(0x0200 | ((d & 15) << 4) | (r & 15), "MULS Rd,Rr: dddd rrrr"); break;
    case 6: regtxt(a1, d); run("LDS", 2);
      if (d > 31) REJECT("register number above 31"); else if (in_v2 < 0 || in_v2 > 65535) REJECT("data address outside 16 bits");
      else EXPECT2(0x9000 | (d << 4), in_v2, "LDS Rd,k: 1001 000d dddd 0000 + 16-bit address"); break;
    case 7: regtxt(a2, r); run("STS", 2);
      if (r > 31) REJECT("register number above 31"); else if (in_v1 < 0 || in_v1 > 65535) REJECT("data address outside 16 bits");
      else EXPECT2(0x9200 | (r << 4), in_v1, "STS k,Rr: 1001 001r rrrr 0000 + 16-bit address"); break;
    default: run(in_form == 8 ? "JMP" : "CALL", 1);
      if (in_v1 < 0 || in_v1 > 65535) { REJECT("target outside the program memory"); WITNESS("long jump rejected"); }
      else EXPECT2(in_form == 8 ? 0x940C : 0x940E, in_v1, "JMP/CALL k: 1001 010k kkkk 11xk + low 16 address bits (k < 64K words)"); break;
  }
#elif defined(G_PBIT)
  ASSUME(in_form < 4);
  {
    static const row pbit_ops[4] = { {"CBI",0x9800},{"SBI",0x9A00},{"SBIC",0x9900},{"SBIS",0x9B00} };
    for (f = 0; f < 4; f++) if (f == in_form)
    {
      run(pbit_ops[f].mn, 2);                         /* I/O address given as a plain number, bit number as second operand */
      if (in_v2 < 0 || in_v2 > 7) REJECT("bit number outside 0..7");
      else if (in_v1 < 0 || in_v1 > 31) { REJECT("CBI/SBI/SBIC/SBIS reach I/O addresses 0..31 only"); WITNESS("I/O bit address rejected"); }
      else EXPECT1(pbit_ops[f].op | (in_v1 << 3) | in_v2, "I/O bit instruction: AAAA Abbb");
    }
  }
#endif
  WITNESS("end");
}
