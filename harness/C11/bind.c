/* C11-K3: macro argument binding -- ExpandMacro() of as.c for a macro with two parameters A and B
 * (defaults "p" and "q"), called with up to two arguments each chosen from
 * { (absent), "" , "x", "A=", "A=y", "B=", "B=z" }.  Reference (manual, "MACRO"): positional non-empty
 * argument -> that text; empty positional or missing argument -> the default; keyword argument -> its
 * text, and an EMPTY keyword argument overrides a non-empty default; positional after keyword, a
 * parameter given twice and an unknown keyword are errors.
 */
#include "vlib.h"
#include <stdio.h>
#include <ctype.h>
#undef isspace
#define isspace(c) ((c) == ' ' || ((c) >= 9 && (c) <= 13))
#define main asl_main
#include "src/as.c"
#undef main
#include "diag.h"

char* QuotPosQualify(char const* s, char Zeichen, tQualifyQuoteFnc f) { (void)f; for (; *s; s++) if (*s == Zeichen) return (char*)s; return NULL; }
char* as_strdup(char const* s) { char* d = (char*)malloc(4); int i; for (i = 0; i < 3 && s[i]; i++) d[i] = s[i]; d[i] = 0; return d; }
int KillPrefBlanks(char* s) { (void)s; return 0; }
tLstMacroExp ApplyLstMacroExpMod(tLstMacroExp Src, tLstMacroExpMod const* pMod) { (void)pMod; return Src; }
Integer SaveIFs(void) { return 0; }

unsigned char in_a1, in_a2, in_argc;
static char t1[4], t2[4], o1[4], o2[4], nmA[2] = "A", nmB[2] = "B", dfA[2] = "p", dfB[2] = "q";
static tStrComp argstore[3];
static MacroRec mac; static StringRec nA, nB, dA, dB;
static char e1[2] = "", att[2] = "", lab[2] = "", mname[2] = "M";

static void pick(char* t, unsigned k)
{
  switch (k) { case 0: strcpy(t, ""); break; case 1: strcpy(t, "x"); break; case 2: strcpy(t, "A="); break; case 3: strcpy(t, "A=y"); break; case 4: strcpy(t, "B="); break; default: strcpy(t, "B=z"); break; }
}
/* reference binding: returns 0 on error; val[i] = -1 default, 0 empty, else the character */
static int dup_seen;
static int bind(int argc, unsigned k1, unsigned k2, int* vA, int* vB)
{
  int named = 0, i; unsigned k[2]; int setA = 0, setB = 0;
  k[0] = k1; k[1] = k2; *vA = -1; *vB = -1;
  for (i = 0; i < argc; i++)
  {
    if (k[i] >= 2)
    {
      int isA = (k[i] == 2 || k[i] == 3), v = (k[i] == 3) ? 'y' : (k[i] == 5) ? 'z' : 0;
      if (isA) { if (setA) dup_seen = 1; *vA = v; setA = 1; } else { if (setB) dup_seen = 1; *vB = v; setB = 1; }   /* given twice: warning, the later one wins */
      named = 1;
    }
    else if (named) return 0;
    else if (k[i] == 1) { if (i == 0) { *vA = 'x'; setA = 1; } else { *vB = 'x'; setB = 1; } }
  }
  return 1;
}

void harness(void)
{
  int vA, vB, ok; PInputTag t; StringRecPtr pa, pb;
  LOAD(in_a1); LOAD(in_a2); LOAD(in_argc);
  ASSUME(in_a1 <= 5 && in_a2 <= 5 && in_argc <= 2);
  pick(t1, in_a1); pick(t2, in_a2); pick(o1, in_a1); pick(o2, in_a2);      /* o1/o2: the arguments as written (ExpandMacro splits keyword arguments in place) */
  ArgStr = argstore; argstore[1].str.p_str = t1; argstore[2].str.p_str = t2; ArgCnt = in_argc;
  AttrPart.str.p_str = att; LabPart.str.p_str = lab;
  nA.Content = nmA; nA.Next = &nB; nB.Content = nmB; nB.Next = NULL; dA.Content = dfA; dA.Next = &dB; dB.Content = dfB; dB.Next = NULL;
  mac.Name = mname; mac.ParamCount = 2; mac.ParamNames = &nA; mac.ParamDefVals = &dA; mac.FirstLine = NULL; mac.UseCounter = 0; mac.UsesAllArgs = True; mac.UsesNumArgs = False;
  NestMax = 0; CaseSensitive = True; IfAsm = True; FirstInputTag = NULL; DoLst = eLstMacroExpAll; CurrLine = 1; CurrIncludeLevel = 0;
  diag_reset();

  ExpandMacro(&mac);

  ok = bind(in_argc, in_a1, in_a2, &vA, &vB);
  t = FirstInputTag;
  CHECK(t != NULL && t->IsMacro, "a macro input tag is pushed");
  if (t)
  {
    /* ALLARGS: the arguments of the call in their original form, comma separated */
    char exp[10]; exp[0] = 0;
    if (in_argc >= 1) strcat(exp, o1);
    if (in_argc >= 2) { strcat(exp, ","); strcat(exp, o2); }
    CHECK(!strcmp(t->AllArgs, exp), "ALLARGS holds the call's arguments as written (keyword arguments with their name=value text)");
  }
  if (!ok) { CHECK(diag_errs > 0, "a positional argument after a keyword argument is an error"); WITNESS("binding error"); return; }
  if (dup_seen) { CHECK(diag_warns > 0 && diag_errs == 0, "a parameter given twice is a warning"); WITNESS("parameter given twice"); }
  else CHECK(diag_cnt == 0, "a well-formed call raises nothing");
  pa = t->Params; pb = pa ? pa->Next : NULL;
  CHECK(pa && pb && pa->Content && pb->Content, "both parameters are bound");
  if (pa && pb && pa->Content && pb->Content)
  {
    CHECK(vA == -1 ? (pa->Content[0] == 'p' && !pa->Content[1]) : vA == 0 ? !pa->Content[0] : (pa->Content[0] == vA && !pa->Content[1]),
          "parameter A: given text, empty text for an empty keyword argument, default otherwise");
    CHECK(vB == -1 ? (pb->Content[0] == 'q' && !pb->Content[1]) : vB == 0 ? !pb->Content[0] : (pb->Content[0] == vB && !pb->Content[1]),
          "parameter B: given text, empty text for an empty keyword argument, default otherwise");
  }
  if (vA == 0 || vB == 0) WITNESS("empty keyword argument");
  WITNESS("end");
}
