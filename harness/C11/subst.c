/* C11-K1: macro parameter substitution -- CompressLine() stores a body line with parameter names
 * replaced by 2-byte tokens, ExpandLine() puts the call's argument in at expansion time (asmsub.c).
 * For every line of <= LL characters, parameter name of 1..2 letters, parameter number 0..NPAR-1 and
 * argument text of <= 2 characters, the result equals the textual replacement of exactly those
 * occurrences of the name that are delimited by non-alphanumeric characters (manual: "only letters
 * and numbers are allowed" in parameter names, the underscore concatenates).
 */
#include "vlib.h"
#include <string.h>
static void* vmemmove(void* d, const void* s, size_t n);
static void* vmemcpy(void* d, const void* s, size_t n);
#define memmove vmemmove
#define memcpy vmemcpy
#include "src/asmsub.c"
#undef memmove
#undef memcpy
static void* vmemcpy(void* d, const void* s, size_t n) { size_t i; for (i = 0; i < n; i++) ((char*)d)[i] = ((const char*)s)[i]; return d; }
static void* vmemmove(void* d, const void* s, size_t n)
{ size_t i; if ((char*)d < (const char*)s) for (i = 0; i < n; i++) ((char*)d)[i] = ((const char*)s)[i]; else for (i = n; i > 0; i--) ((char*)d)[i - 1] = ((const char*)s)[i - 1]; return d; }

#ifndef LL
#define LL 4
#endif
#ifndef NPAR
#define NPAR 20
#endif
char in_line[LL], in_name[2], in_arg[2];
unsigned char in_linelen, in_namelen, in_arglen, in_tok;

static int alnum(char c) { return (c >= 'A' && c <= 'Z') || (c >= 'a' && c <= 'z') || (c >= '0' && c <= '9'); }
static char buf[32];

void harness(void)
{
  as_dynstr_t line; char name[3], arg[3], ref[LL * 2 + 1]; unsigned i, rl = 0, p;
  LOADA(in_line, LL); LOADA(in_name, 2); LOADA(in_arg, 2); LOAD(in_linelen); LOAD(in_namelen); LOAD(in_arglen); LOAD(in_tok);
  ASSUME(in_linelen <= LL && in_namelen >= 1 && in_namelen <= 2 && in_arglen <= 2 && in_tok < NPAR);
  for (i = 0; i < LL; i++) ASSUME(in_line[i] == 'a' || in_line[i] == 'b' || in_line[i] == '1' || in_line[i] == '_' || in_line[i] == ' ' || in_line[i] == ',');
  for (i = 0; i < 2; i++) { ASSUME(in_name[i] == 'a' || in_name[i] == 'b'); ASSUME(in_arg[i] == 'x' || in_arg[i] == '7' || in_arg[i] == '_'); }
  for (i = 0; i < 2; i++) { name[i] = i < in_namelen ? in_name[i] : 0; arg[i] = i < in_arglen ? in_arg[i] : 0; }
  name[2] = arg[2] = 0;
  line.p_str = buf; line.capacity = sizeof(buf); line.dynamic = 0;
  for (i = 0; i < LL; i++) buf[i] = i < in_linelen ? in_line[i] : 0;
  buf[LL] = 0;

  /* reference: replace whole-name occurrences, left to right, non-overlapping */
  p = 0;
  while (p < in_linelen)
  {
    int m = (p + in_namelen <= in_linelen);
    for (i = 0; i < 2; i++) if (m && i < in_namelen && in_line[p + i] != name[i]) m = 0;
    if (m && (p == 0 || !alnum(in_line[p - 1])) && (p + in_namelen >= in_linelen || !alnum(in_line[p + in_namelen])))
    { for (i = 0; i < 2; i++) if (i < in_arglen) ref[rl++] = arg[i]; p += in_namelen; WITNESS("a substitution happens"); }
    else ref[rl++] = in_line[p++];
  }
  ref[rl] = 0;

  CompressLine(name, in_tok, &line, True);
  for (i = 0; i < LL; i++) if (buf[i]) CHECK(buf[i] != '\n' || 1, "placeholder");
  ExpandLine(arg, in_tok, &line);

  CHECK(strlen(buf) == rl, "expanded line has the length of the textual substitution");
  for (i = 0; i < LL * 2; i++) if (i < rl) CHECK(buf[i] == ref[i], "expanded line = textual substitution of whole parameter names");
  WITNESS("end");
}
