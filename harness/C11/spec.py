"""C11 obligations (DESIGN.md C11)."""
OBLIGATIONS = [
    dict(name="param_subst", src="subst.c", include=["asmsub.c"], units=["asmdef.c"], stubs=[], defs=["LL=4", "NPAR=20", "STRINGSIZE=16"], nobody_mode="nondet",
         unwind=10, unwind_fn={"harness": 12}, timeout=1500, mem_gb=20,
         functions=["asmsub.c:CompressLine", "asmsub.c:ExpandLine", "asmsub.c:ReplaceLine", "asmsub.c:ReplaceLineUnchecked", "asmsub.c:ReplaceToken", "asmsub.c:IsValidParameterName", "asmsub.c:SetToken"],
         bounds="body line <= 4 characters over {a,b,1,_,blank,comma}, parameter name 1..2 letters, parameter number 0..19, argument <= 2 characters over {x,7,_}",
         assumes=["line buffer of 32 bytes (no reallocation)", "case-sensitive matching", "no backslash-delimited \\\\name\\\\ form, no quotes"]),
    dict(name="arg_binding", src="bind.c", include=["as.c"], units=["asmdef.c", "stringlists.c", "strcomp.c", "dynstr.c"], stubs=["diag.c", "fmt_off.c"], defs=["STRINGSIZE=16", "FMT_OFF_NO_PRINTF"], nobody_mode="nondet",
         unwind=8, mem_gb=24, timeout=1200, functions=["as.c:ExpandMacro", "as.c:GenerateProcessor", "stringlists.c:AddStringListFirst", "stringlists.c:AddStringListLast"],
         bounds="macro with 2 parameters with defaults, 0..2 call arguments each from {empty, x, A=, A=y, B=, B=z}",
         assumes=["QuotPos/as_strdup/blank trimming replaced by minimal versions", "frame assumption for the remaining callees"]),
]
META = dict(outside=["end-to-end equivalence of a construct program with its hand expansion (two whole assembler runs)", "ALLARGS/ARGCOUNT, excess arguments, SHIFT",
                     "REPT/IRP/IRPC/WHILE stepping, nesting, EXITM/SHIFT", "INCLUDE/BINCLUDE", "local-label privacy"],
            assumptions=["malloc never fails"])
