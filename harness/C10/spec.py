"""C10 obligations (DESIGN.md C10)."""
BASE = dict(backends=["cadical", "z3", "cvc5"], src="counters.c", include=["asmallg.c"], units=["asmsub.c", "asmdef.c", "strcomp.c", "dynstr.c"], stubs=["diag.c", "fmt_off.c"],
            functions=["asmallg.c:CodeORG", "CodeORG_Core", "CodeRORG", "CodeALIGN", "CodePHASE", "CodeDEPHASE", "SetNSeg", "CodeSAVE", "CodeRESTORE",
                       "asmsub.c:ProgCounter", "asmsub.c:EProgCounter", "asmsub.c:Granularity", "asmsub.c:BookKeeping"],
            assumes=["argument values arrive through a stub evaluator (arbitrary 64-bit values, evaluation succeeds)", "as.c WriteCode cut to its contract (PC += CodeLen), verified separately in C04 writecode",
                     "ChkPC accepts every address; CPU unchanged across SAVE/RESTORE; use list and debug info off", "segments: CODE (byte-granular) and DATA (word-granular)"])
OBLIGATIONS = [
    dict(BASE, name="counters_k3", defs=["K=3", "STRINGSIZE=16", "NO_ALIGN"], unwind=10, unwind_fn={"harness": 16}, timeout=1500,
         bounds="all sequences of 3 operations from {ORG, RORG, PHASE, DEPHASE, SEGMENT, SAVE, RESTORE, emit 1..8, reserve 1..65536}, arbitrary 64-bit arguments"),
    dict(BASE, name="counters_k4", defs=["K=4", "STRINGSIZE=16", "NO_ALIGN"], unwind=10, unwind_fn={"harness": 16}, timeout=3000, tier="thorough",
         bounds="all sequences of 4 operations (as counters_k3)"),
    dict(BASE, name="phase_k5", defs=["K=5", "STRINGSIZE=16", "PHASE_ONLY"], unwind=10, unwind_fn={"harness": 16}, timeout=1500,
         bounds="all sequences of 5 operations from {PHASE, DEPHASE, emit 1..8} (PHASE nesting up to 5 deep), arbitrary 64-bit arguments"),
    dict(BASE, name="align_low", defs=["K=1", "STRINGSIZE=16", "ALIGN_ONLY", "ALIGN_NMAX=255", "ALIGN_BASE=0ull"], unwind=10, unwind_fn={"harness": 16}, timeout=900,
         bounds="ALIGN n, n 0..255, address 0..65535"),
    dict(BASE, name="align_2g", defs=["K=1", "STRINGSIZE=16", "ALIGN_ONLY", "ALIGN_NMAX=255", "ALIGN_BASE=0x7fff8000ull"], unwind=10, unwind_fn={"harness": 16}, timeout=900,
         bounds="ALIGN n, n 0..255, address $7FFF8000..$80007FFF (straddles 2^31)"),
]
META = dict(outside=["STRUCT/UNION field and length symbols (symbol-table strings)", "per-target ChkPC limits", "listing state in SAVE/RESTORE", "SEGMENT name parsing (DecodeSegment)"],
            assumptions=["malloc never fails"])
