"""C10 obligations (DESIGN.md C10)."""
BASE = dict(src="counters.c", include=["asmallg.c"], units=["asmsub.c", "asmdef.c"], stubs=["diag.c", "fmt_off.c"],
            functions=["asmallg.c:CodeORG", "CodeORG_Core", "CodeRORG", "CodeALIGN", "CodePHASE", "CodeDEPHASE", "SetNSeg", "CodeSAVE", "CodeRESTORE",
                       "asmsub.c:ProgCounter", "asmsub.c:EProgCounter", "asmsub.c:Granularity", "asmsub.c:BookKeeping"],
            assumes=["argument values arrive through a stub evaluator (arbitrary 64-bit values, evaluation succeeds)", "as.c WriteCode cut to its contract (PC += CodeLen), verified separately in C04 writecode",
                     "ChkPC accepts every address; CPU unchanged across SAVE/RESTORE; use list and debug info off", "segments: CODE (byte-granular) and DATA (word-granular)"])
OBLIGATIONS = [
    dict(BASE, name="counters_k2", defs=["K=2", "STRINGSIZE=16"], unwind=10, unwind_fn={"harness": 16}, bounds="all sequences of 2 operations, arbitrary arguments, any address below 2^32 - 65536", timeout=1500),
    dict(BASE, name="counters_k3", defs=["K=3", "STRINGSIZE=16", "ALIGN_BELOW_2G"], tier="thorough", unwind=10, unwind_fn={"harness": 16},
         bounds="all sequences of 3 operations from {ORG, RORG, ALIGN n, PHASE, DEPHASE, SEGMENT, SAVE, RESTORE, emit 1..8, reserve 1..65536}, arbitrary 64-bit arguments (ALIGN: 1..65535, address < 2^31)",
         timeout=1500),
    dict(BASE, name="align_32bit", defs=["K=1", "STRINGSIZE=16"], unwind=10, unwind_fn={"harness": 16},
         bounds="one ALIGN at any address below 2^32 - 65536 (other operations included at K=1)", timeout=600),
]
META = dict(outside=["STRUCT/UNION field and length symbols (symbol-table strings)", "per-target ChkPC limits", "listing state in SAVE/RESTORE", "SEGMENT name parsing (DecodeSegment)"],
            assumptions=["malloc never fails"])
