/* C10: address bookkeeping -- the real CodeORG/CodeRORG/CodeALIGN/CodePHASE/CodeDEPHASE/
 * SetNSeg/CodeSAVE/CodeRESTORE (asmallg.c), WriteCode (as.c), ProgCounter/EProgCounter/
 * Granularity/BookKeeping (asmsub.c) against a reference model of the counters, for every
 * sequence of K operations with arbitrary argument values.
 */
#include "vlib.h"
#include "src/asmallg.c"
#include "diag.h"

#ifndef K
#define K 5
#endif
enum { O_ORG, O_RORG, O_ALIGN, O_PHASE, O_DEPHASE, O_SEG, O_SAVE, O_RESTORE, O_EMIT, O_RESERVE, O_NOPS };

unsigned char in_op[K], in_seg[K];
LargeWord in_val[K];
LargeWord in_init0, in_init1;

/* ---- environment ---- */
static int cur;
LargeInt EvalStrIntExpressionWithFlags(const struct sStrComp* pExpr, IntType Type, Boolean* pResult, tSymbolFlags* pFlags)
{ (void)pExpr; (void)Type; *pResult = True; *pFlags = eSymbolFlag_None; return (LargeInt)in_val[cur]; }
LargeInt EvalStrIntExpression(const struct sStrComp* pExpr, IntType Type, Boolean* pResult)
{ (void)pExpr; (void)Type; *pResult = True; return (LargeInt)in_val[cur]; }
/* as.c WriteCode() cut to its contract (checked against the real function in C04 'writecode'):
   outside a structure definition the active segment's counter advances by CodeLen */
void WriteCode(void) { PCs[ActPC] = PCs[ActPC] + CodeLen; PCsUsed[ActPC] = True; }
char* as_strdup(char const* s) { (void)s; return (char*)malloc(2); }
tLstMacroExp GetLstMacroExp(void) { return eLstMacroExpAll; }
void SetLstMacroExp(tLstMacroExp n) { (void)n; }
struct sSymbolEntry* EnterIntSymbolWithFlags(const struct sStrComp* pName, LargeInt Wert, as_addrspace_t addrspace, Boolean MayChange, tSymbolFlags Flags)
{ (void)pName; (void)Wert; (void)addrspace; (void)MayChange; (void)Flags; return NULL; }
static Boolean chkpc_ok(LargeWord Addr) { (void)Addr; return True; }

/* ---- reference model ---- */
#define NS 2
static const int segid[NS] = { SegCode, SegData };
static LargeWord m_pc[NS], m_phase[NS], m_pstack[NS][K]; static int m_pdepth[NS];
static int m_used[NS], m_act, m_save[K], m_sdepth;
static LargeWord m_init[NS];

static tStrComp argstore[3];
static char s_empty[1] = "", s_x[2] = "x", cpuargs[2] = "";
static LargeWord pcs_store[SegCountPlusStruct], phases_store[SegCountPlusStruct], inits_store[SegCount], limits_store[SegCount];
static unsigned char codebuf[64];

void harness(void)
{
  int i, s;
  LOADA(in_op, K); LOADA(in_seg, K); LOADA(in_val, K); LOAD(in_init0); LOAD(in_init1);

  PCs = pcs_store; Phases = phases_store; SegInits = inits_store; SegLimits = limits_store;
  for (s = 0; s < SegCount; s++) { PCsUsed[s] = False; pPhaseStacks[s] = NULL; Grans[s] = 1; ListGrans[s] = 1; }
  Grans[SegData] = 2; ListGrans[SegData] = 2;                   /* one byte-, one word-granular segment */
  SegInits[SegCode] = m_init[0] = in_init0; SegInits[SegData] = m_init[1] = in_init1;
  ChkPC = chkpc_ok;
  ArgStr = argstore; argstore[1].str.p_str = s_x; argstore[2].str.p_str = s_x;
  AttrPart.str.p_str = s_empty; LabPart.str.p_str = s_empty;
  MomCPUArgs = cpuargs; FirstSaveState = NULL;
  MakeUseList = False; DebugMode = DebugNone; CodeOutput = True; StopfZahl = 0; ActListGran = 1;
  BAsmCode = codebuf; WAsmCode = (Word*)codebuf; DAsmCode = (LongWord*)codebuf; MaxCodeLen = sizeof(codebuf);
  diag_reset();

  /* start of a pass: CODE segment active and in use */
  ActPC = SegCode; PCs[SegCode] = in_init0; PCsUsed[SegCode] = True;
  for (s = 0; s < NS; s++) { m_pc[s] = m_init[s]; m_phase[s] = 0; m_pdepth[s] = 0; m_used[s] = 0; }
  m_act = 0; m_used[0] = 1; m_sdepth = 0;

  for (i = 0; i < K; i++)
  {
    int a = m_act;
    LargeWord v = in_val[i], e = m_pc[a] + m_phase[a];
    ASSUME(in_op[i] < O_NOPS && in_seg[i] < NS);
#ifdef NO_ALIGN
    ASSUME(in_op[i] != O_ALIGN);
#endif
#ifdef ALIGN_ONLY
    ASSUME(in_op[i] == O_ALIGN);
#endif
#ifdef PHASE_ONLY
    ASSUME(in_op[i] == O_PHASE || in_op[i] == O_DEPHASE || in_op[i] == O_EMIT);     /* deep PHASE nesting */
#endif
    cur = i; CodeLen = 0; DontPrint = False;
    switch (in_op[i])
    {
      case O_ORG:
        ArgCnt = 1; CodeORG(0);
        m_pc[a] = v - m_phase[a];
        break;
      case O_RORG:
        ArgCnt = 1; CodeRORG(0);
        m_pc[a] += v;
        break;
      case O_ALIGN:
      {
        LargeWord n = v, target;
        ASSUME(n <= 0xffff);
#ifdef ALIGN_ONLY
        ASSUME(n <= ALIGN_NMAX && e >= ALIGN_BASE && e < ALIGN_BASE + 0x10000ull);   /* stated bound (64-bit division by a symbolic value) */
#endif
        if (n == 0)
        {
          ArgCnt = 1; CodeALIGN(0);
          CHECK(diag_errs == 1 && CodeLen == 0, "ALIGN 0 is rejected with an error");
#if !defined(NO_ALIGN) && !defined(PHASE_ONLY)
          WITNESS("align 0 rejected");
#endif
          return;
        }
#ifdef ALIGN_BELOW_2G
        ASSUME(e < 0x7fff0000ull);
#else
        ASSUME(e < 0xffff0000ull);                        /* 32-bit address space */
#endif
        ArgCnt = 1; CodeALIGN(0);
        target = ((e + n - 1) / n) * n;
        CHECK(diag_cnt == 0, "ALIGN with a valid argument raises nothing");
        CHECK(e + CodeLen == target, "ALIGN n advances to the next multiple of n (no move when already aligned)");
        WriteCode();
        m_pc[a] += target - e;
#if !defined(NO_ALIGN) && !defined(PHASE_ONLY)
        WITNESS("align");
#endif
        break;
      }
      case O_PHASE:
        ASSUME(v <= 0x7fffffffull);                       /* PHASE takes an Int32 argument */
        ArgCnt = 1; CodePHASE(0);
        m_pstack[a][m_pdepth[a]++] = m_phase[a];
        m_phase[a] = v - m_pc[a];
        break;
      case O_DEPHASE:
        ArgCnt = 0; CodeDEPHASE(0);
        if (m_pdepth[a]) { m_phase[a] = m_pstack[a][--m_pdepth[a]]; 
#if K >= 2 && !defined(ALIGN_ONLY)
          WITNESS("dephase restores");
#endif
 }
        else m_phase[a] = 0;
        break;
      case O_SEG:
        SetNSeg((Byte)segid[in_seg[i]]);
        m_act = in_seg[i];
        if (!m_used[m_act]) { m_pc[m_act] = m_init[m_act]; m_used[m_act] = 1; }
        break;
      case O_SAVE:
        ArgCnt = 0; CodeSAVE(0);
        m_save[m_sdepth++] = m_act;
        break;
      case O_RESTORE:
        ArgCnt = 0; CodeRESTORE(0);
        if (m_sdepth) { m_act = m_save[--m_sdepth];
#if K >= 2 && !defined(ALIGN_ONLY) && !defined(PHASE_ONLY)
          WITNESS("restore");
#endif
        }
        else { CHECK(diag_errs == 1, "RESTORE without SAVE is an error"); diag_reset(); }
        break;
      case O_EMIT:
        ASSUME(v >= 1 && v <= 8);
        CodeLen = (LongInt)v; DontPrint = False; WriteCode();
        m_pc[a] += v;
        break;
      case O_RESERVE:
        ASSUME(v >= 1 && v <= 0x10000);
        CodeLen = (LongInt)v; DontPrint = True; WriteCode();
        m_pc[a] += v;
        break;
    }
    CHECK(diag_errs == 0, "well-formed statement raises no error");
    CHECK(ActPC == segid[m_act], "active segment as the statements imply");
    CHECK(ProgCounter() == m_pc[m_act], "load address = what ORG/RORG/ALIGN/reservations/code of the active segment imply");
    CHECK(EProgCounter() == m_pc[m_act] + m_phase[m_act], "labels and $ read load address plus the active PHASE offset");
    CHECK(PCs[segid[1 - m_act]] == m_pc[1 - m_act] || !m_used[1 - m_act], "the other segment keeps its own counter");
    CHECK(Phases[segid[1 - m_act]] == m_phase[1 - m_act], "PHASE of one segment leaves the other untouched");
  }
  WITNESS("end");
}
