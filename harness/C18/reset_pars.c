/* C18: per-file reset of the parser/symbol module -- AsmParsInit() of asmpars.c from an arbitrary
 * pre-state (what a predecessor file may leave): number radix, symbol/section/stack/function roots. */
#include "vlib.h"
#include "src/asmpars.c"

LongInt in_i[4]; unsigned char in_b[8]; int in_r[2];
static TSymbolEntry junk_sym; static TCToken junk_sect; static TLocHeap junk_loc; static TSymbolStack junk_stack; static TFunction junk_fn;

void harness(void)
{
  LOADA(in_i, 4); LOADA(in_b, 8); LOADA(in_r, 2);
  RadixBase = in_r[0]; OutRadixBase = in_r[1]; DoRefs = in_b[0] & 1; RegistersDefined = in_b[1] & 1;
  MomLocHandle = in_i[0]; MomSectionHandle = in_i[1];
  FirstSymbol = (in_b[2] & 1) ? &junk_sym : NULL; FirstLocSymbol = (in_b[3] & 1) ? &junk_sym : NULL;
  FirstSection = (in_b[4] & 1) ? &junk_sect : NULL; FirstLocHandle = (in_b[5] & 1) ? &junk_loc : NULL;
  FirstStack = (in_b[6] & 1) ? &junk_stack : NULL; FirstFunction = (in_b[7] & 1) ? &junk_fn : NULL;

  AsmParsInit();

  CHECK(RadixBase == 10 && OutRadixBase == 16, "number radix for input (10) and output (16) restart for every file");
  CHECK(FirstSymbol == NULL && FirstLocSymbol == NULL, "symbol tables start empty");
  CHECK(FirstSection == NULL && FirstLocHandle == NULL && FirstStack == NULL && FirstFunction == NULL, "section list, local handles, PUSHV stacks and user functions start empty");
  CHECK(MomLocHandle == -1 && MomSectionHandle == -1, "no local / section scope inherited");
  CHECK(DoRefs && !RegistersDefined, "reference tracking on, no register symbols inherited");
  WITNESS("end");
}
