/* C18: reset completeness of the per-file / per-pass core state.
 * havoc-then-init: every listed variable is given an ARBITRARY value (what a predecessor file
 * could have left behind), then the real per-file/per-pass initialisers run:
 *   AsmDefInit (asmdef.c), AsmIFInit (asmif.c), AsmErrPassInit-equivalent reset inside
 *   AssembleFile_InitPass (as.c), AsmSubPassInit (asmsub.c) -- and every listed variable must
 * hold its documented start value.  Callees that build strings/symbols/CPU state are cut.
 */
#include "vlib.h"
#include <stdio.h>
#define main asl_main
#include "src/as.c"
#undef main

/* callees of AssembleFile_InitPass with pointer results / that must not run */
char* getmessage(int n) { static char e[1]; (void)n; return e; }
char* as_strdup(char const* s) { (void)s; return (char*)malloc(2); }
void AddFile(char* n) { (void)n; }
void InitPass(void) {}
struct sSymbolEntry* EnterIntSymbolWithFlags(const struct sStrComp* pName, LargeInt Wert, as_addrspace_t addrspace, Boolean MayChange, tSymbolFlags Flags)
{ (void)pName; (void)Wert; (void)addrspace; (void)MayChange; (void)Flags; return NULL; }
void SetFlag(Boolean* Flag, char const* Name, Boolean Wert) { (void)Name; *Flag = Wert; }
void InitChunk(ChunkList* c) { c->RealLen = 0; c->AllocLen = 0; c->Chunks = NULL; }

LongWord ErrorCount, WarnCount;            /* asmerr.c is not linked */
/* havoc values */
LongWord in_w[8]; LargeWord in_l[16]; unsigned char in_b[32]; LongInt in_i[8];
static LargeWord pcs_store[SegCountPlusStruct], phases_store[SegCountPlusStruct];
static char cur[STRINGSIZE], defcpu[2] = "", pi1[STRINGSIZE], pi2[STRINGSIZE], pi3[STRINGSIZE];
static TDefinement junk_def; static TInputTag junk_in; static TOutputTag junk_out; static TStructStack junk_struct;
static TIfSave junk_if; static TSaveState junk_save; static TSaveSection junk_sect; static tSavePhase junk_phase;

void harness(void)
{
  int z;
  LOADA(in_w, 8); LOADA(in_l, 16); LOADA(in_b, 32); LOADA(in_i, 8);
  PCs = pcs_store; Phases = phases_store; CurrFileName = cur; DefCPU[0] = 0;
  PrtInitString = pi1; PrtExitString = pi2; PrtTitleString = pi3;
  /* ---- havoc: state a previous file may have left behind ---- */
  ErrorCount = in_w[0]; WarnCount = in_w[1]; LineSum = in_i[0]; MacLineSum = in_i[1]; MomLineCounter = in_i[2]; CurrLine = in_i[3];
  ActPC = in_b[0] % SegCount; RelSegs = in_b[1] & 1; ENDOccured = in_b[2] & 1; IfAsm = in_b[3] & 1;
  MomLocHandle = in_i[4]; LocHandleCnt = in_i[5]; SectSymbolCounter = in_i[6]; IncDepth = in_i[7];
  for (z = 0; z < SegCount; z++) { PCs[z] = in_l[z]; Phases[z] = in_l[15 - (z % 8)]; PCsUsed[z] = in_b[4 + z] & 1; pPhaseStacks[z] = (in_b[16 + z] & 1) ? &junk_phase : NULL; }
  SectionStack = (in_b[28] & 1) ? &junk_sect : NULL; FirstIfSave = (in_b[29] & 1) ? &junk_if : NULL; FirstSaveState = (in_b[30] & 1) ? &junk_save : NULL;
  EnumSegment = in_b[31] % SegCount; EnumIncrement = in_i[0]; EnumCurrentValue = in_i[1];
  PassNo = in_w[2]; MaxSymPass = in_w[3]; DoLst = (tLstMacroExp)(in_b[27] & 7);
  PageLength = in_b[26]; PageWidth = in_b[25]; ListOn = in_b[24];
  Repass = in_b[23] & 1;
  StartAdrPresent = in_b[22] & 1; StartAdr = in_l[9]; AfterBSRAddr = in_l[10];
  LstCounter = in_b[21]; ChapDepth = in_b[20] & 7; FirstDefine = (in_b[19] & 1) ? &junk_def : NULL;
  FirstInputTag = (in_b[18] & 1) ? &junk_in : NULL; FirstOutputTag = (in_b[17] & 1) ? &junk_out : NULL;
  StructStack = pInnermostNamedStruct = (in_b[16] & 2) ? &junk_struct : NULL;
  pi1[0] = pi2[0] = pi3[0] = cur[0] = 'x'; pi1[1] = pi2[1] = pi3[1] = cur[1] = 0;

  /* ---- the per-file and per-pass initialisers, in the order AssembleFile() calls them ---- */
  AsmDefInit();
  AsmIFInit();
  PassNo = 0;                              /* AssembleFile(): PassNo = 0 before the pass loop */
  AssembleFile_InitPass();
  AsmSubPassInit();

  CHECK(ErrorCount == 0 && WarnCount == 0, "error and warning counts start at zero");
  CHECK(ActPC == SegCode && PCs[SegCode] == 0, "assembly starts in segment CODE at address 0");
  for (z = 1; z < SegCount; z++) CHECK(!PCsUsed[z] && Phases[z] == 0, "other segments unused, no phase offset");
  for (z = 0; z < SegCount; z++) CHECK(pPhaseStacks[z] == NULL, "no PHASE nesting inherited");
  CHECK(!RelSegs && !ENDOccured, "segment / END flags cleared");
  CHECK(IfAsm, "conditional assembly active");
  CHECK(SectionStack == NULL && FirstIfSave == NULL && FirstSaveState == NULL && StructStack == NULL, "no open section / IF / SAVE / STRUCT inherited");
  CHECK(MomLocHandle == -1 && LocHandleCnt == 0, "no macro-local scope inherited");
  CHECK(LineSum == 0 && MacLineSum == 0 && MomLineCounter == 0 && CurrLine == 0 && IncDepth == 0, "line counters cleared");
  CHECK(EnumSegment == SegNone && EnumIncrement == 1 && EnumCurrentValue == 0, "ENUM state cleared");
  CHECK(PassNo == 1 && MaxSymPass == 1, "pass numbering restarts");
  CHECK(ListOn == 1 && DoLst == eLstMacroExpAll, "listing state restarts");
  CHECK(PageLength == 60 && PageWidth == 0, "page geometry restarts");
  CHECK(FirstInputTag == NULL && FirstOutputTag == NULL, "no input/output processors inherited");
  CHECK(!StartAdrPresent, "no entry address inherited from the previous file");
  CHECK(AfterBSRAddr == 0, "BSR tracking cleared");
  CHECK(pInnermostNamedStruct == NULL, "no structure definition inherited");
  CHECK(LstCounter == 0 && ChapDepth == 0 && FirstDefine == NULL, "listing line counter, chapter depth and -D definitions list restart");
  CHECK(PrtInitString[0] == 0 && PrtExitString[0] == 0 && PrtTitleString[0] == 0, "printer strings and title cleared");
  CHECK(CurrFileName[0] == 'I', "current file name restarts as INTERNAL");
  CHECK(!Repass, "no repass request inherited");
  WITNESS("end");
}
