"""C18 obligations (DESIGN.md C18)."""
OBLIGATIONS = [
    dict(name="reset_core", src="reset.c", include=["as.c"], units=["asmdef.c", "asmif.c", "asmsub.c"], stubs=["fmt_off.c"], defs=["STRINGSIZE=16", "FMT_OFF_NO_PRINTF"],
         nobody_mode="nondet", cuts={"asmsub.c": ["InitPass"]}, unwind=40, unwind_fn={"harness": 40, "AssembleFile_InitPass": 300},
         functions=["as.c:AssembleFile_InitPass", "asmdef.c:AsmDefInit", "asmif.c:AsmIFInit", "asmsub.c:AsmSubPassInit"], timeout=900,
         bounds="arbitrary pre-state of the ~40 listed per-file/per-pass variables",
         assumes=["frame assumption: callees that build strings, symbols or CPU state (EnterIntSymbol, SetCPUByType, Reset*Defines, NLS date/time ...) do not touch the listed variables; their bodies are 'return nondet'",
                  "InitPass() (registered per-module initialisers) cut", "PCs/Phases arrays allocated by the harness"]),
    dict(name="reset_parser", src="reset_pars.c", include=["asmpars.c"], units=["asmdef.c"], stubs=[], defs=["STRINGSIZE=16"], nobody_mode="nondet", unwind=12,
         functions=["asmpars.c:AsmParsInit", "asmpars.c:SetMomSection"], timeout=600, bounds="arbitrary pre-state of radix, table roots, scope handles",
         assumes=["frame assumption for callees outside asmpars.c"]),
]
META = dict(outside=["the ~100 code generators' statics (InitPass callbacks, SwitchFrom)", "contents of macro/struct/define tables (heap)", "behaviour after a fatal error (exit)",
                     "that 'asl a b' equals 'asl a; asl b' end to end (needs whole assembler runs)"],
            assumptions=["malloc never fails"])
