"""C17 obligations (DESIGN.md C17)."""
OBLIGATIONS = [
    dict(name="writecode_noninterference", src="noninterf.c", include=["as.c"], units=["asmdef.c", "asmsub.c"], stubs=["diag.c", "fmt_off.c"], defs=["STRINGSIZE=16"],
         unwind=6, functions=["as.c:WriteCode", "asmsub.c:BookKeeping"], timeout=900,
         bounds="one emission/reservation step from an arbitrary state; two arbitrary settings of use list / debug format / cross list / list mode / list mask",
         assumes=["code-file writer, chunk list and debug-info lists replaced by call recorders (AddChunk may answer 'overlap' arbitrarily)", "not inside a structure definition"]),
]
import importlib.util, os
_p = os.path.join(os.path.dirname(__file__), "..", "C01", "spec.py")
_sp = importlib.util.spec_from_file_location("c01spec17", _p); _m01 = importlib.util.module_from_spec(_sp); _sp.loader.exec_module(_m01)
OBLIGATIONS.append(dict(_m01.BASE, name="crossref_noninterference", src="../C01/symtab.c", defs=["K_XREF", "STRINGSIZE=16"],
    functions=["asmpars.c:LookupSymbol", "FindNode", "FindNode_FNode", "AddReference", "IsSymbolUsed", "IsSymbolDefined"],
    bounds="one symbol, any sequence of 3 operations from {IFDEF test, IFUSED test, evaluation}, cross-reference option on or off"))
META = dict(outside=["bit-for-bit determinism across whole runs, working directory, output path, message language", "option placement (argv / ASCMD / key file): cmdarg.c string parsing",
                     "-h / -SPLITBYTE, reproducibility of listing text", "MakeList frame condition: see C19 makelist (code buffers and counters untouched)"],
            assumptions=["malloc never fails"])
