"""C17 obligations (DESIGN.md C17)."""
OBLIGATIONS = [
    dict(name="writecode_noninterference", src="noninterf.c", include=["as.c"], units=["asmdef.c", "asmsub.c"], stubs=["diag.c", "fmt_off.c"], defs=["STRINGSIZE=16"],
         unwind=6, functions=["as.c:WriteCode", "asmsub.c:BookKeeping"], timeout=900,
         bounds="one emission/reservation step from an arbitrary state; two arbitrary settings of use list / debug format / cross list / list mode / list mask",
         assumes=["code-file writer, chunk list and debug-info lists replaced by call recorders (AddChunk may answer 'overlap' arbitrarily)", "not inside a structure definition"]),
]
META = dict(outside=["bit-for-bit determinism across whole runs, working directory, output path, message language", "option placement (argv / ASCMD / key file): cmdarg.c string parsing",
                     "-h / -SPLITBYTE, reproducibility of listing text", "MakeList frame condition: see C19 makelist (code buffers and counters untouched)"],
            assumptions=["malloc never fails"])
