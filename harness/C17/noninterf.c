/* C17-K1: report options do not interfere with code emission (2-safety by self-composition).
 * The real WriteCode() (as.c) and BookKeeping() (asmsub.c) run twice from the same arbitrary
 * state, the runs differing only in report options (-u use list, -g debug info, cross list,
 * listing mode/mask); everything the code file depends on must come out identical.
 */
#include "vlib.h"
#include <stdio.h>
#define main asl_main
#include "src/as.c"
#undef main
#include "diag.h"

static int n_newrecord, n_writebytes; static LargeWord newrecord_arg;
static int n_addchunk, n_lineinfo, n_sectusage; static unsigned char overlap_answer;
void NewRecord(LargeWord NStart) { n_newrecord++; newrecord_arg = NStart; }
void WriteBytes(void) { n_writebytes++; }
Boolean AddChunk(ChunkList* c, LargeWord s, LargeWord l, Boolean w) { (void)c; (void)s; (void)l; (void)w; n_addchunk++; return overlap_answer & 1; }
void AddSectionUsage(LongInt Start, LongInt Length) { (void)Start; (void)Length; n_sectusage++; }
void AddLineInfo(Boolean InMacro, LongInt LineNum, char* FileName, ShortInt Space, LargeInt Address, LargeInt Len)
{ (void)InMacro; (void)LineNum; (void)FileName; (void)Space; (void)Address; (void)Len; n_lineinfo++; }

LargeWord in_pc, in_phase, in_limit;
LongInt in_codelen;
unsigned char in_dontprint, in_codeoutput, in_seg, in_opt[2][5], in_overlap;
static Boolean chk(LargeWord a) { return a <= in_limit; }
static LargeWord pcs_store[SegCountPlusStruct], phases_store[SegCountPlusStruct];
static unsigned char codebuf[64]; static char fn[2] = "f";

struct outcome { LargeWord pc; LongInt codelen; int nr, wb; LargeWord nra; int errs; Boolean dontprint; unsigned char used; };

static void one_run(int k, struct outcome* o)
{
  ActPC = in_seg; PCs[ActPC] = in_pc; Phases[ActPC] = in_phase; PCsUsed[ActPC] = False;
  CodeLen = in_codelen; DontPrint = in_dontprint; CodeOutput = in_codeoutput;
  MakeUseList = in_opt[k][0] & 1; DebugMode = (in_opt[k][1] % 3 == 0) ? DebugNone : (in_opt[k][1] % 3 == 1) ? DebugMAP : DebugAtmel;
  MakeCrossList = in_opt[k][2] & 1; ListMode = in_opt[k][3] % 3; ListMask = in_opt[k][4];
  n_newrecord = n_writebytes = 0; newrecord_arg = 0; diag_reset();
  WriteCode();
  o->pc = PCs[ActPC]; o->codelen = CodeLen; o->nr = n_newrecord; o->wb = n_writebytes; o->nra = newrecord_arg;
  o->errs = diag_errs; o->dontprint = DontPrint; o->used = PCsUsed[ActPC];
}

void harness(void)
{
  struct outcome a, b;
  LOAD(in_pc); LOAD(in_phase); LOAD(in_limit); LOAD(in_codelen); LOAD(in_dontprint); LOAD(in_codeoutput); LOAD(in_seg); LOAD(in_overlap);
  LOADA(in_opt[0], 5); LOADA(in_opt[1], 5);
  ASSUME(in_seg < SegCount && in_dontprint <= 1 && in_codeoutput <= 1 && in_codelen >= 0 && in_codelen <= 0x10000);
  PCs = pcs_store; Phases = phases_store; ChkPC = chk; StopfZahl = 0; ActListGran = 1; Grans[in_seg] = 1;
  BAsmCode = codebuf; WAsmCode = (Word*)codebuf; DAsmCode = (LongWord*)codebuf; CurrFileName = fn; CurrLine = 1; InMacroFlag = False;
  overlap_answer = in_overlap;
  one_run(0, &a);
  one_run(1, &b);
  CHECK(a.pc == b.pc && a.codelen == b.codelen, "program counter and code length do not depend on report options");
  CHECK(a.nr == b.nr && a.wb == b.wb && a.nra == b.nra, "the same records / bytes are handed to the code-file writer");
  CHECK(a.errs == b.errs, "report options add no errors (the -u overlap message is a warning)");
  CHECK(a.dontprint == b.dontprint && a.used == b.used, "emission flags do not depend on report options");
  if (n_addchunk) WITNESS("use list active in one run");
  if (n_lineinfo) WITNESS("debug info active in one run");
  WITNESS("end");
}
