/* C20-K2/K3: position selection for diagnostics -- GetErrorPos() and the *_GetPos callbacks of as.c
 * over a chain of up to 3 input tags (include file / macro / REPT) with arbitrary line counters.
 * The formatter is a token recorder: (kind, name, line numbers) per position element.
 */
#include "vlib.h"
#include <stdio.h>
#include <stdarg.h>
#define main asl_main
#include "src/as.c"
#undef main

#define MAXTOK 8
static struct { int kind; const char* name; unsigned long a, b; } tok[MAXTOK]; static int ntok, unknown_fmt;
int as_snprintf(char* pDest, size_t DestSize, const char* f, ...)
{
  va_list ap; va_start(ap, f);
  if (DestSize) pDest[0] = 0;
  if (!strcmp(f, "%s(%lu) ") || !strcmp(f, "%s:%lu")) { if (ntok < MAXTOK) { tok[ntok].kind = 1; tok[ntok].name = va_arg(ap, const char*); tok[ntok].a = va_arg(ap, unsigned long); } ntok++; }
  else if (!strcmp(f, "REPT %lu(%lu)")) { if (ntok < MAXTOK) { tok[ntok].kind = 2; tok[ntok].a = va_arg(ap, unsigned long); tok[ntok].b = va_arg(ap, unsigned long); } ntok++; }
  else if (!strcmp(f, "%s %s")) { }
  else unknown_fmt++;
  va_end(ap);
  return 0;
}
int as_snprcatf(char* pDest, size_t DestSize, const char* f, ...) { (void)pDest; (void)DestSize; (void)f; return 0; }
char* getmessage(int n) { static char e[1]; (void)n; return e; }
char const* NamePart(char const* Name) { return Name; }

/* ReallocStr cut: one fixed buffer (string building is not the subject) */
static char posbuf[64];
static void ReallocStr(tAllocStr* pStr, unsigned NewAllocLen) { (void)NewAllocLen; if (!pStr->AllocLen) { posbuf[0] = 0; pStr->pStr = posbuf; pStr->AllocLen = sizeof(posbuf); } }
/* position callbacks of tag kinds that are not modelled (they stay candidates of the indirect call) */
static Boolean IRP_GetPos(PInputTag PInp, char* dest, size_t DestSize) { (void)PInp; (void)dest; (void)DestSize; CHECK(0, "IRP position callback is not part of this harness"); return False; }
static Boolean WHILE_GetPos(PInputTag PInp, char* dest, size_t DestSize) { (void)PInp; (void)dest; (void)DestSize; CHECK(0, "WHILE position callback is not part of this harness"); return False; }
#define NT 3
unsigned char in_ntags, in_kind[NT], in_gnu;
LongInt in_linez[NT], in_parz[NT], in_linecnt[NT];
static TInputTag tag[NT];
static char nm[NT][4] = { "a", "b", "c" };

void harness(void)
{
  int i, e;
  char* p;
  LOAD(in_ntags); LOADA(in_kind, NT); LOAD(in_gnu); LOADA(in_linez, NT); LOADA(in_parz, NT); LOADA(in_linecnt, NT);
  ASSUME(in_ntags >= 1 && in_ntags <= NT && in_gnu <= 1);
  for (i = 0; i < NT; i++)
  {
    ASSUME(in_kind[i] <= 2);                                   /* 0 include file, 1 macro, 2 REPT */
    ASSUME(in_linez[i] >= 1 && in_linez[i] <= 100000 && in_linecnt[i] >= 1 && in_linecnt[i] <= 1000 && in_parz[i] >= 1 && in_parz[i] <= 1000);
    tag[i].GetPos = in_kind[i] == 0 ? INCLUDE_GetPos : in_kind[i] == 1 ? MACRO_GetPos : REPT_GetPos;
    tag[i].LineZ = in_linez[i]; tag[i].ParZ = in_parz[i]; tag[i].LineCnt = in_linecnt[i];
    tag[i].SpecName.str.p_str = nm[i];
    tag[i].Next = (i + 1 < in_ntags) ? &tag[i + 1] : NULL;       /* tag[0] innermost */
  }
  ASSUME(in_kind[in_ntags - 1] == 0);                          /* the outermost input is always a file */
  FirstInputTag = &tag[0]; GNUErrors = in_gnu;

  p = GetErrorPos();
  CHECK(p != NULL, "a position string is produced");
  CHECK(unknown_fmt == 0, "every position format is modelled");

  e = 0;
  if (!in_gnu)
  {
    /* native style: every construct from the offending line outward, up to and including the file that contains it */
    for (i = 0; i < NT; i++)
      if (i < in_ntags && (i == 0 || e == i))      /* e == i: all inner tags were non-files */
      {
        if (in_kind[i] == 0) { CHECK(e < ntok && tok[e].kind == 1 && tok[e].name == nm[i] && tok[e].a == (unsigned long)in_linez[i], "file element: the file's name and its current line"); e++; break; }
        else if (in_kind[i] == 1) { CHECK(e < ntok && tok[e].kind == 1 && tok[e].name == nm[i] && tok[e].a == (unsigned long)(in_linez[i] - 1), "macro element: the macro's name and the body line being assembled"); e++; }
        else
        {
          unsigned long z1 = in_parz[i], z2 = in_linez[i] - 1;
          if (in_linez[i] - 1 <= 0) { z2 = in_linecnt[i]; z1 = in_parz[i] - 1; }
          CHECK(e < ntok && tok[e].kind == 2 && tok[e].a == z1 && tok[e].b == z2, "REPT element: iteration and body line being assembled"); e++;
        }
      }
    CHECK(ntok == e, "no position element beyond the containing file");
    WITNESS("native style");
  }
  else
  {
    /* GNU style: include chain only -- outer files first (in chain order), the innermost file last */
    int inner = -1, n = 0;
    for (i = 0; i < NT; i++) if (i < in_ntags && in_kind[i] == 0) { if (inner < 0) inner = i; else { CHECK(n < ntok && tok[n].name == nm[i] && tok[n].a == (unsigned long)in_linez[i], "GNU style: enclosing file and line"); n++; } }
    CHECK(inner >= 0 && n < ntok && tok[n].name == nm[inner] && tok[n].a == (unsigned long)in_linez[inner], "GNU style: innermost file and its line last");
    CHECK(ntok == n + 1, "GNU style: macro and REPT elements are not shown");
    WITNESS("gnu style");
  }
  WITNESS("end");
}
