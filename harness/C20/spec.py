"""C20 obligations (DESIGN.md C20)."""
import importlib.util, os
def _other(prop):
    p = os.path.join(os.path.dirname(__file__), "..", prop, "spec.py")
    s = importlib.util.spec_from_file_location("spec" + prop, p); m = importlib.util.module_from_spec(s); s.loader.exec_module(m); return m
_c02 = _other("C02"); _c16 = _other("C16")
OBLIGATIONS = [
    dict(name="errorpos", src="errpos.c", include=["as.c"], units=["asmdef.c"], stubs=["fmt_off.c"], defs=["STRINGSIZE=16", "FMT_OFF_NO_PRINTF"], nobody_mode="nondet", cuts={"as.c": ["ReallocStr", "IRP_GetPos", "WHILE_GetPos"]},
         unwind=16, mem_gb=24, unwind_fn={"harness": 8}, functions=["as.c:GetErrorPos", "as.c:INCLUDE_GetPos", "as.c:MACRO_GetPos", "as.c:REPT_GetPos"], timeout=900,
         bounds="chains of 1..3 input tags of kinds {file, macro, REPT}, arbitrary line counters, native and -gnuerrors style",
         assumes=["formatter replaced by a token recorder", "IRP/IRPC/WHILE tags not modelled", "frame assumption for the remaining callees (string allocation helpers)"]),
]
OBLIGATIONS.append(dict(name="include_linecounter", src="incl.c", include=["as.c"], units=["asmdef.c", "strcomp.c", "dynstr.c"], stubs=["fmt_off.c"], defs=["STRINGSIZE=16", "FMT_OFF_NO_PRINTF"],
    nobody_mode="nondet", unwind=20, mem_gb=24, timeout=900,
    functions=["as.c:ExpandINCLUDE_Core", "as.c:INCLUDE_Restorer", "as.c:GenerateProcessor"],
    bounds="arbitrary physical line counter and statement line of the enclosing file (independent), include depth < 100",
    assumes=["include-path search and file opening cut", "frame assumption for AddFile/PushInclude and the remaining callees"]))
# EXPECT/ENDEXPECT bookkeeping (asmerr.c) and physical-line counting (ReadLnCont) are shared with C02 / C16
for o in _c02.OBLIGATIONS:
    if o["name"] == "expect":
        OBLIGATIONS.append(dict(o, src="../C02/" + o["src"]))
for o in _c16.OBLIGATIONS:
    if o["name"] == "readlncont":
        OBLIGATIONS.append(dict(o, src="../C16/" + o["src"]))
META = dict(outside=["message text and -gnuerrors punctuation", "column markers", "that each code generator attributes an error to the right argument", "IRP/IRPC/WHILE position elements"],
            assumptions=["malloc never fails"])
