/* C20: line bookkeeping around INCLUDE -- ExpandINCLUDE_Core() saves the enclosing file's physical
 * line counter and name, INCLUDE_Restorer() reinstates them when the include file ends, so that
 * later diagnostics of the enclosing file name the right line.  The counter of physical lines read
 * (MomLineCounter) and the line of the statement being assembled (CurrLine) are independent
 * symbolic values (they differ inside REPT/IRP/WHILE bodies and continuation lines).
 */
#include "vlib.h"
#include <stdio.h>
static FILE* vfopen(const char* n, const char* m) { (void)n; (void)m; return (FILE*)(void*)&vfopen; }
#define fopen(n, m) vfopen(n, m)
#define setvbuf(a, b, c, d) ((void)0)
#define main asl_main
#include "src/as.c"
#undef main
#undef fopen

void INCLUDE_SearchCore(tStrComp* pDest, tStrComp const* pArg, Boolean SearchPath)
{ (void)SearchPath; pDest->str.p_str[0] = pArg->str.p_str[0]; pDest->str.p_str[1] = 0; }

LongInt in_mom, in_curr, in_incdepth;
static char cur[STRINGSIZE] = "m", an[4] = "i";
static tStrComp arg;

void harness(void)
{
  PInputTag t;
  LOAD(in_mom); LOAD(in_curr); LOAD(in_incdepth);
  ASSUME(in_mom >= 0 && in_mom < 1000000 && in_curr >= 0 && in_curr < 1000000 && in_incdepth >= 0 && in_incdepth < 100);
  CurrFileName = cur; MomLineCounter = in_mom; CurrLine = in_curr; IncDepth = in_incdepth;
  FirstInputTag = NULL; CurrIncludeLevel = 0; MaxIncludeLevel = 200; DoLst = eLstMacroExpAll;
  arg.str.p_str = an;

  ExpandINCLUDE_Core(&arg, False);
  t = FirstInputTag;
  CHECK(t != NULL && t->Processor == INCLUDE_Processor, "an input tag for the include file is pushed");
  CHECK(MomLineCounter == 0 && t->LineZ == 0, "line counting restarts in the include file");
  CHECK(CurrFileName[0] == 'i', "the include file becomes the current file");
  t->Restorer(t);
  CHECK(MomLineCounter == in_mom, "at the end of the include file the enclosing file's physical line counter is reinstated");
  CHECK(CurrFileName[0] == 'm' && CurrFileName[1] == 0, "the enclosing file's name is reinstated");
  CHECK(CurrLine == in_curr, "the current statement's line is untouched");
  WITNESS("end");
}
