"""C01 obligations (DESIGN.md C01)."""
CUTS = {"asmpars.c": ["ExpandStrSymbol", "GetSymSection", "ChkTmp3", "ChkTmp"]}
BASE = dict(src="symtab.c", include=["asmpars.c"], units=["tempresult.c", "nonzstring.c", "asmdef.c"], stubs=["diag.c", "fmt_off.c"], cuts=CUTS,
            unwind=8, unwind_fn={"harness": 12, "setup": 12},
            assumes=["tree (trees.c) replaced by a list contract keyed by (name, section handle); trees.c checked against it separately (C13 'trees')",
                     "name handling (ExpandStrSymbol, GetSymSection, ChkTmp*, ChkSymbName*, NLS_UpString) cut to identity on one-letter names",
                     "no sections, no macro-local handles, cross-reference list off", "diag.c stub for the error interface"])
OBLIGATIONS = [
    dict(BASE, name="pass_composition", defs=["K_PASS", "NEV=4", "STRINGSIZE=16"],
         functions=["asmpars.c:EnterIntSymbolWithFlags", "CreateSymbolEntry", "EnterSymbol", "SymbolAdder", "LookupSymbol", "FindNode", "FindLocNode", "FindNode_FNode", "ResetSymbolDefines"],
         bounds="2 symbols, previous-pass table arbitrary, 4 events {use L, use F, define L:=v, define F:=v} with arbitrary 64-bit values, pass number 1..3", timeout=1200),
    dict(BASE, name="padded_label", defs=["K_PADLABEL", "STRINGSIZE=16"], units=BASE["units"] + ["asmlabel.c"], nobody_mode="nondet",
         functions=["asmlabel.c:LabelHandle", "asmlabel.c:LabelModify", "asmlabel.c:LabelReset", "asmpars.c:EnterIntSymbolWithFlags", "EnterSymbol", "SymbolAdder", "ChangeSymbol", "ResetSymbolDefines"],
         bounds="one label, any address below 2^31, padding 0..3 bytes, two consecutive passes with identical layout",
         assumes=BASE["assumes"] + ["InsertPadding's WriteCode/MakeList not executed: the harness calls LabelHandle(k) and LabelModify(k, k+pad) as InsertPadding does"]),
    dict(BASE, name="forward_lookup", defs=["K_FORWARD", "STRINGSIZE=16"],
         functions=["asmpars.c:LookupSymbol", "FindNode", "FindNode_FSpec", "FindNode_FNode", "EnterSymbol"],
         bounds="first pass, one section inside the global scope, a global symbol L; FORWARD L announced or not; reference spelled L or l; case-sensitive mode on/off",
         assumes=BASE["assumes"][:1] + ["name handling cut to one-letter names (NLS_UpString = ASCII upper-casing of that letter)", "one section level, FORWARD list of one entry"]),
]
META = dict(outside=["termination for programs whose size selection oscillates (liveness over unboundedly many passes)",
                     "size selection of the code generators (68000, 6809, 68HC11, 6502, 8086)", "label fix-up after padding (known livelock, see DESIGN.md; harness pending)",
                     "the golden-corpus extra-pass comparison (concrete runs)"],
            assumptions=["malloc never fails"])
