/* C01-K1..K3 / C13-K1..K2: symbol table mechanics of the real asmpars.c
 * (EnterIntSymbolWithFlags -> CreateSymbolEntry -> EnterSymbol -> SymbolAdder,
 *  LookupSymbol -> FindLocNode/FindNode -> FindNode_FNode, ResetSymbolDefines)
 * over a list model of the tree (trees.c is checked against the same contract in C13 'trees'),
 * name handling cut to identity on one-letter names.
 */
#include "vlib.h"
#ifdef K_TMPSYM
#include <ctype.h>
#undef isspace
#define isspace(c) ((c) == ' ' || ((c) >= 9 && (c) <= 13))     /* C locale */
/* CBMC 6.11's built-in memmove left the overlapping shift of the 3-entry log undone (counterexample did not reproduce
   natively); a plain byte-wise memmove is substituted for this kernel */
#include <string.h>
static void* vmemmove(void* d, const void* s, size_t n)
{
  unsigned char* dd = (unsigned char*)d; const unsigned char* ss = (const unsigned char*)s; size_t i;
  if (dd < ss) for (i = 0; i < n; i++) dd[i] = ss[i];
  else for (i = n; i > 0; i--) dd[i - 1] = ss[i - 1];
  return d;
}
#define memmove vmemmove
#endif
#include "src/asmpars.c"
#include "diag.h"
#ifdef K_TMPSYM
/* formatter observed instead of executed: "__back%d" / "__forw%d" / "__%s%d" */
#include <stdarg.h>
static int cap_seen, cap_back, cap_num;
int as_snprintf(char* pDest, size_t DestSize, const char* pFormat, ...)
{
  va_list ap; va_start(ap, pFormat);
  if (DestSize) pDest[0] = 0;
  if (pFormat[0] == '_' && pFormat[1] == '_')
  {
    if (pFormat[2] == '%') { const char* w = va_arg(ap, const char*); cap_back = (w[0] == 'b'); }
    else cap_back = (pFormat[2] == 'b');
    cap_num = va_arg(ap, int); cap_seen++;
  }
  va_end(ap); return 0;
}
int as_snprcatf(char* pDest, size_t DestSize, const char* pFormat, ...) { (void)pDest; (void)DestSize; (void)pFormat; return 0; }
int as_sdprintf(struct as_dynstr* p_dest, const char* pFormat, ...) { (void)p_dest; (void)pFormat; return 0; }
int as_sdprcatf(struct as_dynstr* p_dest, const char* pFormat, ...) { (void)p_dest; (void)pFormat; return 0; }
#endif
#ifdef K_XREF
Integer GetFileNum(char* Name) { (void)Name; return 0; }
#endif
#ifdef K_PADLABEL
#include "asmlabel.h"
#include "asmstructs.h"
PStructStack StructStack, pInnermostNamedStruct;
#endif

/* ---------- cut callees of asmpars.c (contracts) ---------- */
Boolean ExpandStrSymbol(char* pDest, size_t DestSize, tStrComp const* pSrc)
{ (void)DestSize; pDest[0] = pSrc->str.p_str[0]; pDest[1] = 0; return True; }
static LongInt qual_handle = -2;                 /* what a [section] qualifier resolves to; -2 = none */
static Boolean GetSymSection(char* Name, LongInt* Erg, tStrComp const* pUnexpComp) { (void)Name; (void)pUnexpComp; *Erg = qual_handle; return True; }
static Boolean ChkTmp3(char* Name, as_symbol_source_t symbol_source) { (void)Name; (void)symbol_source; return False; }
static Boolean ChkTmp(char* Name, as_symbol_source_t symbol_source) { (void)Name; (void)symbol_source; return False; }
Boolean ChkSymbName(char const* pSym) { (void)pSym; return True; }
char* ChkSymbNameUpTo(char const* pSym, char const* pUpTo) { (void)pSym; return (char*)pUpTo; }
void NLS_UpString(char* pStr) { if (pStr[0] >= 'a' && pStr[0] <= 'z') pStr[0] -= 'a' - 'A'; }   /* one-letter names */
char* as_strdup(char const* s) { char* d = (char*)malloc(4); d[0] = s[0]; d[1] = 0; return d; }   /* one-letter names */
LargeWord EProgCounter(void) { return 0x1234; }
void FreeRelocs(PRelocEntry* l) { (void)l; }
PRelocEntry DupRelocs(PRelocEntry s) { (void)s; return NULL; }
PRelocEntry MergeRelocs(PRelocEntry* a, PRelocEntry* b, Boolean Add) { (void)a; (void)b; (void)Add; return NULL; }

/* ---------- tree contract: list of (name, attribute) -> node ---------- */
#define NT 6
static PTree slot[NT];
PTree SearchTree(PTree Tree, char* Name, LongInt Attribute)
{
  int i; (void)Tree;
  for (i = 0; i < NT; i++) if (slot[i] && slot[i]->Name[0] == Name[0] && slot[i]->Attribute == Attribute) return slot[i];
  return NULL;
}
Boolean EnterTree(PTree* PDest, PTree Neu, TTreeAdder Adder, void* pData)
{
  int i, fr = -1;
  for (i = 0; i < NT; i++)
  {
    if (slot[i] && slot[i]->Name[0] == Neu->Name[0] && slot[i]->Attribute == Neu->Attribute)
    {
      if (Adder(&slot[i], Neu, pData))
      {
        PTree old = slot[i];
        slot[i] = Neu;
        if (old->Name) free(old->Name);
        free(old);
      }
      *PDest = slot[0];
      return False;
    }
    if (!slot[i] && fr < 0) fr = i;
  }
  if (fr < 0) { CHECK(0, "harness: tree model capacity"); return False; }
  slot[fr] = Neu; Neu->Left = Neu->Right = NULL; Neu->Balance = 0;
  Adder(NULL, Neu, pData);
  *PDest = slot[0];
  return True;
}
void IterTree(PTree Tree, TTreeCallback Callback, void* pData)
{ int i; if (!Tree) return; for (i = 0; i < NT; i++) if (slot[i]) Callback(slot[i], pData); }

/* ---------- inputs ---------- */
#ifndef NEV
#define NEV 4
#endif
unsigned char in_prev_def[2], in_ev_kind[NEV], in_passno, in_maychange[NEV];
LargeInt in_prev_val[2], in_ev_val[NEV];

static char nL[2] = "L", nF[2] = "F", sbuf[STRINGSIZE];
static tStrComp cL, cF;

static void setup(void)
{
  int i;
  for (i = 0; i < NT; i++) slot[i] = NULL;
  FirstSymbol = NULL; FirstLocSymbol = NULL; SectionStack = NULL; FirstLocHandle = NULL;
  MomLocHandle = -1; MomSectionHandle = -1; CaseSensitive = True; MakeCrossList = False; MakeDebug = False; DoRefs = True;
  MsgIfRepass = False; ThrowErrors = False; JmpErrors = 0; Repass = False; MaxSymPass = 1;
  serr = sbuf;
  cL.str.p_str = nL; cF.str.p_str = nF;
  diag_reset();
}

void harness(void)
{
  int i, s;
  setup();
  LOADA(in_prev_def, 2); LOADA(in_prev_val, 2); LOADA(in_ev_kind, NEV); LOADA(in_ev_val, NEV); LOAD(in_passno); LOADA(in_maychange, NEV);

#if defined(K_PASS)
  {
    /* ---- state left by the previous pass: built with the real functions ---- */
    LargeInt defval[2]; int defined_now[2] = {0, 0}, ndef[2] = {0, 0};
    LargeInt useval[NEV]; int used_sym[NEV], nuse = 0;
    ASSUME(in_passno >= 1 && in_passno <= 3);
    ASSUME(in_passno > 1 || (!in_prev_def[0] && !in_prev_def[1]));     /* pass 1 starts with an empty table */
    PassNo = in_passno > 1 ? in_passno - 1 : 1;
    for (s = 0; s < 2; s++)
      if (in_prev_def[s] & 1) EnterIntSymbolWithFlags(s ? &cF : &cL, in_prev_val[s], SegCode, False, eSymbolFlag_None);
    CHECK(diag_cnt == 0 && !Repass, "building the previous pass's table raises nothing");
    ResetSymbolDefines();
    PassNo = in_passno; Repass = False;

    /* ---- this pass: arbitrary interleaving of uses and definitions with arbitrary values
            (the layout function of any code generator is an arbitrary function) ---- */
    for (i = 0; i < NEV; i++)
    {
      int k = in_ev_kind[i];
      ASSUME(k <= 3);
      s = k & 1;
      if (k < 2)
      {
        TempResult v; as_tempres_ini(&v);
        LookupSymbol(s ? &cF : &cL, &v, False, TempInt);
        if (v.Typ == TempInt) { useval[nuse] = v.Contents.Int; used_sym[nuse] = s; nuse++; }
        else CHECK(diag_errs > 0, "a reference that yields no value is reported");
      }
      else
      {
        EnterIntSymbolWithFlags(s ? &cF : &cL, in_ev_val[i], SegCode, False, eSymbolFlag_None);
        if (!defined_now[s]) defval[s] = in_ev_val[i];
        defined_now[s] = 1; ndef[s]++;
      }
    }
    if (ndef[0] > 1 || ndef[1] > 1)
    {
      CHECK(diag_errs > 0, "defining a constant twice in one pass is an error");
      WITNESS("double definition");
      return;
    }
    /* ---- safety: a pass that ends with Repass == 0 and no error encoded final values everywhere ---- */
    if (!Repass && diag_errs == 0)
    {
      for (i = 0; i < NEV; i++)
        if (i < nuse)
        {
          /* the symbol's final value: this pass's definition, else the value it kept from an earlier pass
             (e.g. a definition guarded by IFNDEF); a symbol with neither cannot be referenced silently */
          int sy = used_sym[i];
          CHECK(defined_now[sy] || (in_prev_def[sy] & 1), "no repass and no error: every referenced symbol has a definition");
          if (defined_now[sy])
            CHECK(useval[i] == defval[sy], "no repass and no error: every reference got the symbol's final value");
          else if (in_prev_def[sy] & 1)
            CHECK(useval[i] == in_prev_val[sy], "no repass and no error: a symbol not redefined in this pass keeps its value");
        }
      if (nuse) WITNESS("converged pass with references");
    }
    /* ---- stability: identical definitions as in the previous pass never force another pass ---- */
    {
      int stable = 1;
      for (s = 0; s < 2; s++)
      {
        if (defined_now[s] && !((in_prev_def[s] & 1) && in_prev_val[s] == defval[s])) stable = 0;
      }
      for (i = 0; i < NEV; i++) if (i < nuse && !(in_prev_def[used_sym[i]] & 1)) stable = 0;
      if (stable && in_passno > 1)
      {
        CHECK(!Repass, "one further pass over an unchanged layout requests no repass");
        WITNESS("stable pass");
      }
    }
    /* ---- phase error: a label whose value moved forces a repass ---- */
    for (s = 0; s < 2; s++)
      if (defined_now[s] && (in_prev_def[s] & 1) && in_prev_val[s] != defval[s] && diag_errs == 0)
      {
        CHECK(Repass, "a constant re-entered with a different value forces another pass");
        WITNESS("phase error");
      }
  }
#elif defined(K_EQUSET)
  {
    /* C13-K1: EQU/SET rules on one symbol within one pass: two definitions then a use */
    Boolean m0 = in_maychange[0] & 1, m1 = in_maychange[1] & 1;
    TempResult v; as_tempres_ini(&v);
    PassNo = 1;
    EnterIntSymbolWithFlags(&cL, in_ev_val[0], SegNone, m0, eSymbolFlag_None);
    CHECK(diag_cnt == 0, "first definition is accepted");
    EnterIntSymbolWithFlags(&cL, in_ev_val[1], SegNone, m1, eSymbolFlag_None);
    LookupSymbol(&cL, &v, False, TempInt);
    CHECK(v.Typ == TempInt, "defined symbol is found");
    if (m0 && m1)
    {
      CHECK(diag_cnt == 0, "SET may redefine a variable");
      CHECK(v.Contents.Int == in_ev_val[1], "a SET variable takes the new value");
      WITNESS("set/set");
    }
    else
    {
      CHECK(diag_errs == 1, "redefining a constant, or mixing EQU and SET, is an error");
      if (!m0 && !m1) CHECK(diag_has(ErrNum_DoubleDef), "constant defined twice: 'symbol double defined'");
      CHECK(v.Contents.Int == in_ev_val[0], "a rejected definition never changes the value");
      CHECK(!Repass, "a rejected definition does not request a repass");
    }
  }
#elif defined(K_SECTION)
  {
    /* C13-K2: resolution order.  'L' may be defined globally (-1), in the outer section (handle 1) and in
       the inner section (handle 2); the reference is made inside the inner section.  Unqualified: innermost
       enclosing definition wins; name[section] / name[]: exactly that section. */
    static TSaveSection st_outer, st_glob;
    static const LongInt hnd[3] = { -1, 1, 2 };
    LargeInt val[3]; int lvl, expect = -1;
    TempResult v; as_tempres_ini(&v);
    PassNo = 2; MaxSymPass = 1;
    for (lvl = 0; lvl < 3; lvl++)
    {
      val[lvl] = in_ev_val[lvl];
      if (in_prev_def[lvl < 2 ? lvl : 0] & (lvl < 2 ? 1 : 2))          /* presence bits: prev_def[0] bit0 = global, prev_def[1] bit0 = outer, prev_def[0] bit1 = inner */
      { MomSectionHandle = hnd[lvl]; SectionStack = NULL; EnterIntSymbolWithFlags(&cL, val[lvl], SegNone, False, eSymbolFlag_None); }
    }
    CHECK(diag_cnt == 0, "same name in different sections does not clash");
    /* nesting: inner (2) inside outer (1) inside global (-1) */
    MomSectionHandle = 2; st_outer.Handle = 1; st_outer.Next = &st_glob; st_glob.Handle = -1; st_glob.Next = NULL; SectionStack = &st_outer;
    ASSUME(in_passno <= 2);
    qual_handle = in_passno == 0 ? -2 : in_passno == 1 ? -1 : 1;   /* none / name[] / name[outer] */
    {
      int has_glob = in_prev_def[0] & 1, has_outer = in_prev_def[1] & 1, has_inner = (in_prev_def[0] >> 1) & 1;
      if (qual_handle == -2) expect = has_inner ? 2 : has_outer ? 1 : has_glob ? 0 : -1;
      else if (qual_handle == -1) expect = has_glob ? 0 : -1;
      else expect = has_outer ? 1 : -1;
    }
    LookupSymbol(&cL, &v, False, TempInt);
    if (expect >= 0)
    {
      CHECK(diag_cnt == 0 && v.Typ == TempInt, "a visible definition is found");
      CHECK(v.Contents.Int == val[expect], "the reference resolves to the innermost enclosing definition, or to the qualified section");
      WITNESS("resolved");
    }
    else
      CHECK(diag_errs > 0, "no visible definition: undefined symbol (pass 2)");
  }
#elif defined(K_FORWARD)
  {
    /* C01/C13: FORWARD.  First pass, inside a section: a symbol announced with FORWARD is looked up in the section only --
       a reference before its local definition must come out as 'unknown in the first pass' (repass), never as the
       value of a global symbol of the same name.  Case-insensitive mode stores and compares names upper-cased. */
    static TSaveSection st_glob; static TForwardSymbol fwd; static char fname[2] = "L", ref[2]; static tStrComp cR;
    TempResult v; as_tempres_ini(&v);
    int casesens = in_prev_def[0] & 1, lower = in_prev_def[1] & 1, announced = in_ev_kind[0] & 1;
    int same_name = casesens ? !lower : 1;
    CaseSensitive = casesens; PassNo = 1; MaxSymPass = 1;
    MomSectionHandle = -1; SectionStack = NULL;
    EnterIntSymbolWithFlags(&cL, in_ev_val[0], SegNone, False, eSymbolFlag_None);       /* global L, already defined */
    CHECK(diag_cnt == 0 && !Repass, "defining the global raises nothing");
    MomSectionHandle = 2; st_glob.Handle = -1; st_glob.Next = NULL; st_glob.GlobSyms = st_glob.ExportSyms = NULL;
    fwd.Next = NULL; fwd.Name = fname; fwd.DestSection = 2;
    st_glob.LocSyms = announced ? &fwd : NULL; SectionStack = &st_glob;
    ref[0] = lower ? 'l' : 'L'; ref[1] = 0; cR.str.p_str = ref;
    LookupSymbol(&cR, &v, False, TempInt);
    if (announced && same_name)
    {
      CHECK(Repass && (v.Flags & eSymbolFlag_FirstPassUnknown), "reference to a FORWARD-announced symbol before its definition: unknown in the first pass, another pass requested");
      WITNESS("forward reference");
      if (!casesens && lower) WITNESS("lower-case spelling in case-insensitive mode");
    }
    else if (same_name)
    {
      CHECK(!Repass && v.Typ == TempInt && v.Contents.Int == in_ev_val[0], "not announced: the enclosing (global) definition is visible");
      WITNESS("global visible");
    }
    else
      CHECK(Repass, "different spelling in case-sensitive mode: unknown symbol in the first pass");
  }
#elif defined(K_PADLABEL)
  {
    /* C01 stability for a label whose address is fixed up after padding (asmlabel.c LabelHandle / LabelModify, as
       asmcode.c InsertPadding drives them): the label is entered with the unpadded PC k and then moved to k+pad.
       A pass that lays the label out exactly as the previous pass did must not request another pass. */
    LargeWord k = (LargeWord)in_ev_val[0], pad = (LargeWord)in_ev_val[1];
    ASSUME(pad <= 3 && k <= 0x7ffffff0ull);
#ifdef KF_EXCLUDE_padded_label_livelock
    ASSUME(pad == 0);
#endif
#ifdef KF_ONLY_padded_label_livelock
    ASSUME(pad != 0);
#endif
    RelSegs = False; AfterBSRAddr = (LargeWord)-1; ActPC = SegCode;
    PassNo = 1; LabelReset();
    LabelHandle(&cL, k, False);
    if (pad) LabelModify(k, k + pad);
    CHECK(diag_cnt == 0 && !Repass, "first pass: defining the label raises nothing");
    ResetSymbolDefines();
    PassNo = 2; Repass = False; LabelReset();
    LabelHandle(&cL, k, False);
    if (pad) LabelModify(k, k + pad);
    CHECK(diag_cnt == 0, "second pass: same layout raises nothing");
    CHECK(!Repass, "a label laid out exactly as in the previous pass (same unpadded PC, same padding) requests no further pass");
#ifndef KF_EXCLUDE_padded_label_livelock
    if (pad) WITNESS("padded label");
#endif
  }
#elif defined(K_TMPSYM)
  {
    /* C13: nameless temporary symbols (asmpars.c ChkTmp2, AddTmpSymLog).  NEV definitions/references in any order:
       '-' refers to the most recent '-' or '/' definition, '--' to the one before, '---' to the third last;
       '+', '++', '+++' refer to the next, second next, third next '+' or '/' definition; every definition gets a
       fresh internal name.  The internal name is observed at as_snprintf (prefix back/forw and number). */
    static const char* const txt[7] = { "-", "+", "/", "--", "---", "++", "+++" };
    int lb[3], ln[3], depth = 0, bc = 0, fc = 0; char dest[STRINGSIZE]; static char src[4];
    LastGlobSymbol = (char*)malloc(STRINGSIZE);
    InitTmpSymbols();
    for (i = 0; i < NEV; i++)
    {
      unsigned k = in_ev_kind[i]; int isdef = in_maychange[i] & 1, c, eb = -1, en = -1, expect_tmp = 1; Boolean r;
      ASSUME(k < 7);
      if (k >= 3) isdef = 0;                                   /* longer forms are references only */
      c = (k == 0 || k == 1 || k == 2) ? 1 : (k == 3 || k == 5) ? 2 : 3;
      if (isdef)
      {
        if (k == 0) { eb = 1; en = bc; }
        else { eb = 0; en = fc; }
        if (k != 1) { lb[2] = lb[1]; ln[2] = ln[1]; lb[1] = lb[0]; ln[1] = ln[0]; lb[0] = (k == 0); ln[0] = (k == 0) ? bc : fc; if (depth < 3) depth++; }
        if (k == 0) bc++; else fc++;
      }
      else if (k == 0 || k == 3 || k == 4)                       /* backward reference */
      {
        if (c <= depth) { eb = lb[c - 1]; en = ln[c - 1]; } else expect_tmp = 0;
      }
      else if (k == 2) expect_tmp = 0;                           /* '/' is a definition only */
      else { eb = 0; en = fc + c - 1; }
      strcpy(src, txt[k]); cap_seen = 0;
      r = ChkTmp2(dest, src, isdef ? e_symbol_source_label : e_symbol_source_none);
      if (!expect_tmp) { CHECK(!r, "no such nameless symbol in sight: not expanded"); WITNESS("out of sight"); }
      else
      {
        CHECK(r && cap_seen == 1, "nameless temporary symbol is expanded to one internal name");
        CHECK(cap_back == eb, "the internal name has the prefix (back/forw) of the definition the reference denotes (n-th last '-' or '/', n-th next '+' or '/')");
        CHECK(cap_num == en, "the internal name has the number of the definition the reference denotes");
        if (!isdef && c == 3 && (k == 4)) WITNESS("third-last backward reference");
      }
    }
  }
#elif defined(K_PUSHV)
  {
    /* C13: PUSHV/POPV (doc "PUSHV and POPV"): named value stacks.  POPV gives the symbol the value most recently pushed on
       that stack and not yet popped; stacks of different names are independent; POPV on an empty/unknown stack is an
       error and changes nothing.  NEV events from {PUSHV stk,sym; POPV stk,sym; SET sym} over stacks A,B and symbols L,F. */
    static char nA[2] = "A", nB[2] = "B"; static tStrComp cA, cB;
    LargeInt cur[2], stk[2][NEV]; int sp[2] = {0, 0};
    cA.str.p_str = nA; cB.str.p_str = nB; FirstStack = NULL; PassNo = 1;
    for (s = 0; s < 2; s++) { EnterIntSymbolWithFlags(s ? &cF : &cL, in_prev_val[s], SegNone, True, eSymbolFlag_None); cur[s] = in_prev_val[s]; }
    CHECK(diag_cnt == 0, "defining the variables raises nothing");
    for (i = 0; i < NEV; i++)
    {
      int k = in_ev_kind[i], st = in_maychange[i] & 1; Boolean ok;
      ASSUME(k <= 2);
      s = (in_maychange[i] >> 1) & 1;
      diag_reset();
      if (k == 0)
      {
        ok = PushSymbol(s ? &cF : &cL, st ? &cB : &cA);
        CHECK(ok && diag_cnt == 0, "PUSHV of a defined symbol succeeds");
        stk[st][sp[st]++] = cur[s];
      }
      else if (k == 1)
      {
        ok = PopSymbol(s ? &cF : &cL, st ? &cB : &cA);
        if (sp[st] == 0) CHECK(!ok && diag_errs == 1, "POPV from an empty or unknown stack is an error");
        else
        {
          CHECK(ok && diag_cnt == 0, "POPV from a stack that holds a value succeeds");
          cur[s] = stk[st][--sp[st]];
          if (sp[st] == 0 && sp[!st] > 0) WITNESS("stack emptied while the other one holds values");
        }
      }
      else
      {
        EnterIntSymbolWithFlags(s ? &cF : &cL, in_ev_val[i], SegNone, True, eSymbolFlag_None);
        CHECK(diag_cnt == 0, "SET of a variable raises nothing");
        cur[s] = in_ev_val[i];
      }
      {
        TempResult v; int q;
        for (q = 0; q < 2; q++)
        {
          as_tempres_ini(&v);
          LookupSymbol(q ? &cF : &cL, &v, False, TempInt);
          CHECK(v.Typ == TempInt && v.Contents.Int == cur[q], "after PUSHV/POPV/SET every variable holds its own last set or restored value");
        }
      }
    }
  }
#elif defined(K_XREF)
  {
    /* C17: the cross-reference option (-C) must not influence assembly.  With MakeCrossList on, every look-up records a
       reference (AddReference); what IFUSED/IFDEF observe -- the Used and Defined state of the symbol -- must be the same
       as with the option off: only an evaluation (LookupSymbol) marks a symbol used, the IFDEF/IFUSED look-ups do not. */
    static char fn[2] = "f"; TempResult v; int k; Boolean used = False;
    as_tempres_ini(&v);
    MakeCrossList = in_prev_def[0] & 1; DoRefs = True; CurrFileName = fn; CurrLine = 1; PassNo = 2;
    EnterIntSymbolWithFlags(&cL, in_ev_val[0], SegNone, False, eSymbolFlag_None);
    CHECK(diag_cnt == 0, "definition raises nothing");
    for (k = 0; k < 3; k++)
    {
      unsigned what = in_ev_kind[k];
      ASSUME(what < 3);
      if (what == 0) { CHECK(IsSymbolDefined(&cL), "IFDEF sees the definition"); }
      else if (what == 1) { CHECK(!!IsSymbolUsed(&cL) == !!used, "IFUSED is true exactly after the symbol was evaluated, with or without -C"); }
      else { LookupSymbol(&cL, &v, False, TempInt); used = True; CHECK(v.Typ == TempInt && v.Contents.Int == in_ev_val[0], "evaluation yields the value"); }
    }
    CHECK(!!IsSymbolUsed(&cL) == !!used, "IFUSED is true exactly after the symbol was evaluated, with or without -C");
    if (MakeCrossList && !used) WITNESS("-C on, symbol only tested");
  }
#endif
  WITNESS("end");
}
