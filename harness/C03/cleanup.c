/* C03: EXITM ends the innermost macro-like construct by running its Cleanup() at once (as.c ExpandEXITM); the input
 * reader runs the same Cleanup() again when it retires the now empty tag (GetNextLine).  Every Cleanup an EXITM can
 * reach -- MACRO, IRP/IRPC, REPT, WHILE -- must therefore be safe to run twice on the same tag.
 */
#include "vlib.h"
#include <stdio.h>
#define main asl_main
#include "src/as.c"
#undef main
#include "diag.h"
char* as_strdup(char const* s) { char* d = (char*)malloc(2); d[0] = s[0]; d[1] = 0; return d; }   /* one-letter strings */

unsigned char in_kind, in_npar, in_nlines;
static TInputTag tag;
static char txt[2] = "x";

void harness(void)
{
  unsigned i;
  LOAD(in_kind); LOAD(in_npar); LOAD(in_nlines);
  ASSUME(in_kind < 5 && in_npar <= 2 && in_nlines <= 2);
  tag.Params = NULL; tag.Lines = NULL;
  for (i = 0; i < 2; i++) if (i < in_npar) AddStringListLast(&tag.Params, txt);
  for (i = 0; i < 2; i++) if (i < in_nlines) AddStringListLast(&tag.Lines, txt);
  switch (in_kind)
  {
    case 0: tag.Processor = MACRO_Processor; tag.Cleanup = MACRO_Cleanup; break;
    case 1: tag.Processor = IRP_Processor; tag.Cleanup = IRP_Cleanup; ASSUME(in_npar >= 1); break;      /* IRP has at least one list element */
    case 2: tag.Processor = IRPC_Processor; tag.Cleanup = IRP_Cleanup; break;
    case 3: tag.Processor = REPT_Processor; tag.Cleanup = REPT_Cleanup; break;
    default: tag.Processor = WHILE_Processor; tag.Cleanup = WHILE_Cleanup; break;
  }
  tag.Cleanup(&tag);                 /* EXITM */
  tag.Cleanup(&tag);                 /* end of the (now empty) input tag */
  /* the property is memory safety of the second run (CBMC pointer checks; native replay under ASan) */
  if (in_kind == 1) WITNESS("IRP cleaned up twice");
  WITNESS("end");
}
