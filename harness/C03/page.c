/* C03: listing geometry cannot hang the symbol table.  PAGE (asmallg.c CodePAGE) with arbitrary operand
 * values, followed by the symbol-table listing of one symbol (asmpars.c PrintSymbolList, PrintSymbolList_PNode):
 * the stored page geometry is the accepted value (no silent truncation; widths 1..4 become 5), and the
 * column-padding loop of the symbol list terminates (unwinding assertion) for every geometry PAGE can leave.
 */
#include "vlib.h"
#include "src/asmpars.c"
#include "diag.h"
#include "evalstub.h"

void CodePAGE(Word Index);      /* asmallg.c, exported for the harness by source substitution (static removed) */

static int ev_range(IntType t, LargeInt* lo, LargeInt* hi)
{
  switch (t)
  {
    case UInt8: *lo = 0; *hi = 255; return 1;
    case Int8: *lo = -128; *hi = 255; return 1;
    case UInt16: *lo = 0; *hi = 65535; return 1;
    case Int16: *lo = -32768; *hi = 65535; return 1;
    case UInt32: *lo = 0; *hi = 0xffffffffll; return 1;
    case Int32: *lo = -0x80000000ll; *hi = 0xffffffffll; return 1;
    default: return 0;
  }
}

unsigned char in_argc, in_slen, in_used;
LargeInt in_v1, in_v2;

/* ---- environment of the symbol list ---- */
static int lst_lines;
void NewPage(ShortInt Level, Boolean WithFF) { (void)Level; (void)WithFF; }
void WrLstLine(char const* Line) { (void)Line; lst_lines++; }
char* getmessage(int n) { static char e[1]; (void)n; return e; }
unsigned visible_strlen(char const* s) { return (unsigned)strlen(s); }
char const* Blanks(int cnt) { static char e[1]; CHECK(cnt >= 0, "padding width is not negative"); return e; }
void StrSym(TempResult const* t, Boolean WithSystem, as_dynstr_t* p_dest, unsigned Radix)
{
  /* value text of in_slen characters */
  unsigned i; (void)t; (void)WithSystem; (void)Radix;
  for (i = 0; i < 6; i++) if (i < in_slen) p_dest->p_str[i] = '1';
  p_dest->p_str[in_slen] = 0;
}
static TSymbolEntry node;
static char nname[2] = "s";
void IterTree(PTree Tree, TTreeCallback Callback, void* pData) { (void)Tree; Callback(&node.Tree, pData); }
static void PrintSymbolList_AddOut(char* s, TListContext* pContext) { (void)s; (void)pContext; }

static tStrComp argstore[3];
static char s_x[2] = "x", s_empty[1] = "";

void harness(void)
{
  unsigned el, ew; int ok;
  LOAD(in_argc); LOAD(in_slen); LOAD(in_used); LOAD(in_v1); LOAD(in_v2);
  ASSUME(in_argc >= 1 && in_argc <= 2 && in_slen <= 6);
  ArgStr = argstore; argstore[1].str.p_str = s_x; argstore[2].str.p_str = s_x; ArgCnt = in_argc;
  AttrPart.str.p_str = s_empty;
  ev_val[1] = in_v1; ev_val[2] = in_v2;
  PageLength = 60; PageWidth = 0;                       /* asmsub.c initial values */
  diag_reset();
  CodePAGE(0);
  ok = in_v1 >= 0 && in_v1 <= 255 && (in_argc == 1 || (in_v2 >= 0 && in_v2 <= 255));
  if (ok)
  {
    el = (unsigned)in_v1; if (el != 0 && el < 5) el = 5;
    ew = (in_argc == 1) ? 0 : (unsigned)in_v2; if (ew != 0 && ew < 5) ew = 5;
    CHECK(diag_errs == 0, "PAGE with length and width in 0..255 is accepted");
    CHECK(PageLength == el && PageWidth == ew, "PAGE stores the given length and width (1..4 raised to 5, 0 = unlimited)");
    WITNESS("PAGE accepted");
  }
  else
  {
    CHECK(diag_errs > 0, "PAGE with a length or width outside 0..255 is rejected with an error");
    CHECK(PageLength == 60 && PageWidth == 0, "a rejected PAGE leaves the geometry unchanged");
    WITNESS("PAGE rejected");
  }
  CHECK(PageWidth == 0 || PageWidth >= 5, "page width is 0 (unlimited) or at least 5");

  /* symbol table listing with one ordinary symbol */
  node.Tree.Name = nname; node.Tree.Attribute = -1; node.Used = in_used & 1;
  node.SymWert.Typ = TempInt; node.SymWert.Contents.Int = 1; node.SymWert.AddrSpaceMask = 0;
  DissectBit = NULL; ChapDepth = 0; ListRadixBase = 16;
  PrintSymbolList();
  CHECK(lst_lines >= 6, "the symbol table was listed to its end");
  WITNESS("end");
}
