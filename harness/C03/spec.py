"""C03 obligations (DESIGN.md C03)."""
def tool(name, tooldef, inc, fn, nb=8, **kw):
    d = dict(name=name, src="tools.c", include=[inc, "toolutils.c"], defs=[tooldef, "NB=%d" % nb, "GOOD_MAGIC", "STRINGSIZE=16"],
             functions=fn, bounds="input file = up to %d free bytes after a correct magic, every length 0..%d" % (nb, nb),
             unwind=nb + 4, unwind_fn={"harness": nb + 4, "vp_vfprintf": 48}, object_bits=12, timeout=1500, mem_gb=16,
             assumes=["stdio replaced by the memory-file model; printf monitor ignores text", "option state: defaults, explicit window 0..15 for p2bin",
                      "copy buffers shrunk to 16 bytes", "AddChunk cut (p2bin)"])
    d.update(kw); return d
OBLIGATIONS = [
    tool("p2bin_bytes", "TOOL_P2BIN", "p2bin.c", ["p2bin.c:MeasureFile", "p2bin.c:ProcessFile", "p2bin.c:OpenTarget", "p2bin.c:CloseTarget", "toolutils.c:ReadRecordHeader", "toolutils.c:SkipRecord"],
         subst={"p2bin.c": [("#define BufferSize 4096", "#define BufferSize 16")]}),
    tool("pbind_bytes", "TOOL_PBIND", "pbind.c", ["pbind.c:ProcessFile", "toolutils.c:ReadRecordHeader", "toolutils.c:WriteRecordHeader", "toolutils.c:SkipRecord"],
         subst={"pbind.c": [("#define BufferSize 8192", "#define BufferSize 16")]}),
    tool("plist_bytes", "TOOL_PLIST", "plist.c", ["plist.c:ProcessSingle", "toolutils.c:ReadRecordHeader", "toolutils.c:SkipRecord", "toolutils.c:ReadRelocInfo"], units=["addrspace.c"]),
]
OBLIGATIONS.append(dict(name="record_reader", src="recio.c", include=["toolutils.c"], defs=["NB=10", "STRINGSIZE=16"], object_bits=13, mem_gb=20, unwind=14, unwind_fn={"harness": 14, "ReadRelocInfo": 3},
    functions=["toolutils.c:ReadRecordHeader", "toolutils.c:SkipRecord", "toolutils.c:ReadRelocInfo", "toolutils.c:DestroyRelocInfo", "toolutils.c:Granularity"], timeout=900,
    bounds="every file of 0..10 arbitrary bytes; relocation tables with more than 2 entries exceed the unwinding bound (reported, not passed)",
    assumes=["stdio replaced by the memory-file model"]))
OBLIGATIONS.append(dict(name="reloc_info", src="recio.c", include=["toolutils.c"], defs=["NB=48", "K_RELOC", "STRINGSIZE=16"], object_bits=12, mem_gb=16, unwind=10, unwind_fn={"harness": 50}, timeout=900,
    functions=["toolutils.c:ReadRelocInfo", "toolutils.c:DestroyRelocInfo"],
    bounds="relocation-info record body of 0..48 arbitrary bytes with at most 1 relocation entry, 1 export entry and a 3-byte string table",
    assumes=["stdio replaced by the memory-file model", "malloc succeeds"]))
for _o in list(OBLIGATIONS[:3]):
    _s = dict(_o); _s["name"] = _o["name"].replace("_bytes", "_fields"); _s["defs"] = [d for d in _o["defs"] if not d.startswith("NB=") and d != "GOOD_MAGIC"] + ["STRUCTURED", "CF_R=2", "CF_L=2"]
    _s["bounds"] = "code file of 2 records with unconstrained header fields (granularity/segment/CPU 0..255, length 0..2, kinds long/short/entry/$82/absent), truncated at any length"
    _s["unwind"] = 10; _s["unwind_fn"] = {"harness": 10, "cf_load": 20, "cf_build": 8, "vp_vfprintf": 48}
    OBLIGATIONS.append(_s)
for _o in list(OBLIGATIONS[:3]):
    _s = dict(_o); _s["name"] = _o["name"].replace("_bytes", "_fields1"); _s["defs"] = [d for d in _o["defs"] if not d.startswith("NB=") and d != "GOOD_MAGIC"] + ["STRUCTURED", "CF_R=1", "CF_L=2"]
    _s["bounds"] = "code file of 1 record with unconstrained header fields (granularity/segment/CPU 0..255, length 0..2, kinds long/short/entry/$82/absent), truncated at any length"
    _s["unwind"] = 10; _s["unwind_fn"] = {"harness": 10, "cf_load": 20, "cf_build": 8, "vp_vfprintf": 48, "OpenTarget": 260}; _s["unwindset"] = ["strlen.0:64"]; _s["timeout"] = 2400; _s["mem_gb"] = 24
    OBLIGATIONS.append(_s)
for _fmt, _ll, _cl in (("eHexFormatIntel32", 16, 2), ("eHexFormatMotoS", 16, 2), ("eHexFormatIntel32", 2, 4)):
    OBLIGATIONS.append(dict(name="p2hex_fields1_" + ("intel32" if "Intel" in _fmt else "moto") + ("" if _ll == 16 else "_l%d" % _ll), src="tools.c", include=["p2hex.c", "toolutils.c"], units=["bpemu.c"], cuts={"bpemu.c": ["FileSize"]},
        defs=["TOOL_P2HEX", "HEXFMT=" + _fmt, "STRINGSIZE=16", "STRUCTURED", "CF_R=1", "CF_L=%d" % _cl, "P2HEX_LINELEN=%d" % _ll],
        functions=["p2hex.c:ProcessFile", "toolutils.c:ReadRecordHeader", "toolutils.c:SkipRecord", "toolutils.c:FilterOK"],
        bounds="code file of 1 record with unconstrained header fields (granularity/segment/CPU 0..255, length 0..%d, kinds long/short/entry/$82/absent), truncated at any length; format fixed per obligation, line length %d, window 0..15 in every segment" % (_cl, _ll),
        unwind=12, unwind_fn={"harness": 12, "cf_load": 20, "cf_build": 8, "vp_vfprintf": 22},
        unwindset=["strlen.0:64", "ProcessFile.4:4", "ProcessFile.0:6", "ProcessFile.1:5", "ProcessFile.2:5", "ProcessFile.3:6", "ProcessFile.5:6", "ProcessFile.6:6"], object_bits=13, timeout=2400, mem_gb=24,
        assumes=["stdio replaced by the memory-file model; printf monitor ignores text", "option state: defaults, explicit window 0..15", "AddChunk cut"]))
for _o in OBLIGATIONS:
    if _o["name"].endswith("_bytes") or _o["name"].endswith("_fields") or _o["name"] == "plist_fields1": _o["tier"] = "experimental"     # do not finish inside the quick budget (see DESIGN.md)
# crash-class kernels shared with other properties: the same harnesses run with CBMC's memory/arithmetic
# checks; the inputs that used to crash the assembler are inside their bounds
import importlib.util, os
def _other(prop):
    p = os.path.join(os.path.dirname(__file__), "..", prop, "spec.py")
    sp = importlib.util.spec_from_file_location("spec" + prop, p); m = importlib.util.module_from_spec(sp); sp.loader.exec_module(m); return m
for _prop, _names in (("C08", ("op_div", "op_mod", "fn_str", "op_shl")), ("C12", ("ifs_k4",)), ("C10", ("align_low",))):
    for _o in _other(_prop).OBLIGATIONS:
        if _o["name"] in _names:
            OBLIGATIONS.append(dict(_o, src="../%s/%s" % (_prop, _o["src"])))
OBLIGATIONS.append(dict(name="page_symlist", src="page.c", include=["asmpars.c"], units=["asmallg.c", "asmdef.c", "dynstr.c"], stubs=["diag.c", "fmt_off.c"], defs=["STRINGSIZE=16"],
    cuts={"asmpars.c": ["EvalStrIntExpression", "EvalStrIntExpressionWithFlags", "EvalStrIntExpressionWithResult", "PrintSymbolList_AddOut"]},
    subst={"asmallg.c": [("static void CodePAGE(Word Index) {", "void CodePAGE(Word Index) {")]}, nobody_mode="nondet", unwind=20, unwind_fn={"harness": 10}, timeout=600,
    functions=["asmallg.c:CodePAGE", "asmpars.c:PrintSymbolList", "asmpars.c:PrintSymbolList_PNode"],
    bounds="PAGE with 1..2 operands of any 64-bit value, then the symbol-table listing of one symbol whose value text has 0..6 characters",
    assumes=["contract evaluator (documented ranges of the requested integer type)", "listing sink, message catalogue, value formatting (StrSym) and line collection (PrintSymbolList_AddOut) replaced by stubs",
             "formatted output (as_sdprintf) empty: the name part of the column is the empty string"]))
OBLIGATIONS.append(dict(name="exitm_cleanup", src="cleanup.c", include=["as.c"], units=["asmdef.c", "stringlists.c"], stubs=["diag.c", "fmt_off.c"], defs=["STRINGSIZE=16"], nobody_mode="nondet",
    unwind=6, timeout=600, functions=["as.c:MACRO_Cleanup", "as.c:IRP_Cleanup", "as.c:REPT_Cleanup", "as.c:WHILE_Cleanup", "stringlists.c:ClearStringList"],
    bounds="tags of the five macro-like kinds with 0..2 parameters and 0..2 body lines; Cleanup run twice",
    assumes=["the tag is built by the harness with the real string-list functions; the processors themselves are not run"]))
META = dict(outside=["whole utilities on arbitrary bytes: harnesses exist (thorough tier) but p2bin/plist do not finish; known by reading: a file truncated after an entry record makes p2bin/p2hex loop forever, granularity byte 0 divides by zero, segment byte >= 11 indexes out of bounds",
                     "asl itself on arbitrary source bytes (line splitter/macro processor/expression parser do not finish under symex)", "alink, dasl, p2hex (pending)",
                     "files longer than the stated bound", "all code generators"],
            assumptions=["malloc never fails"])
