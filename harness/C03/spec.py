"""C03 obligations (DESIGN.md C03)."""
def tool(name, tooldef, inc, fn, nb=8, **kw):
    d = dict(name=name, src="tools.c", include=[inc, "toolutils.c"], defs=[tooldef, "NB=%d" % nb, "GOOD_MAGIC", "STRINGSIZE=16"],
             functions=fn, bounds="input file = up to %d free bytes after a correct magic, every length 0..%d" % (nb, nb),
             unwind=nb + 4, unwind_fn={"harness": nb + 4, "vp_vfprintf": 48}, object_bits=12, timeout=1500, mem_gb=16,
             assumes=["stdio replaced by the memory-file model; printf monitor ignores text", "option state: defaults, explicit window 0..15 for p2bin",
                      "copy buffers shrunk to 16 bytes", "AddChunk cut (p2bin)"])
    d.update(kw); return d
OBLIGATIONS = [
    tool("p2bin_bytes", "TOOL_P2BIN", "p2bin.c", ["p2bin.c:MeasureFile", "p2bin.c:ProcessFile", "p2bin.c:OpenTarget", "p2bin.c:CloseTarget", "toolutils.c:ReadRecordHeader", "toolutils.c:SkipRecord"],
         subst={"p2bin.c": [("#define BufferSize 4096", "#define BufferSize 16")]}),
    tool("pbind_bytes", "TOOL_PBIND", "pbind.c", ["pbind.c:ProcessFile", "toolutils.c:ReadRecordHeader", "toolutils.c:WriteRecordHeader", "toolutils.c:SkipRecord"],
         subst={"pbind.c": [("#define BufferSize 8192", "#define BufferSize 16")]}),
    tool("plist_bytes", "TOOL_PLIST", "plist.c", ["plist.c:ProcessSingle", "toolutils.c:ReadRecordHeader", "toolutils.c:SkipRecord", "toolutils.c:ReadRelocInfo"], units=["addrspace.c"]),
]
META = dict(outside=["asl itself on arbitrary source bytes (line splitter/macro processor/expression parser do not finish under symex)", "alink, dasl, p2hex (pending)",
                     "files longer than the stated bound", "all code generators"],
            assumptions=["malloc never fails"])
