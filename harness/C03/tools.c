/* C03-K1: the utilities on arbitrary bytes.  Input file = in_len <= NB free symbolic bytes
 * (no well-formedness assumption).  Checked: no memory fault, no division by zero, every
 * loop bounded by the input length (unwinding assertions), exit only through 0 / 2 / 3.
 */
#include "vlib.h"
#include <stdio.h>
#include <stdlib.h>
#include "vfile.h"
#include "vprintf.h"

#ifndef NB
#define NB 16
#endif
unsigned char in_file[NB], in_len;
#ifdef STRUCTURED
/* structured malformed input: a code file built from records whose fields are NOT constrained
   (granularity/segment bytes 0..255, zero-length records, any CPU id), truncated at an arbitrary length */
#ifndef CF_R
#define CF_R 2
#endif
#ifndef CF_L
#define CF_L 2
#endif
#include "cfbuild.h"
unsigned char in_trunc;
#endif

static int exit_code = -1;
static void vexit(int code);
#define exit(n) vexit(n)
#define fprintf vp_fprintf
#define printf vp_printf
#define putchar(c) ((void)(c))
#define main tool_main
#include "headids.h"
#include "chunks.h"
#include "src/toolutils.c"
#if defined(TOOL_P2BIN)
#include "src/p2bin.c"
#elif defined(TOOL_PBIND)
#include "src/pbind.c"
#elif defined(TOOL_PLIST)
#include "src/plist.c"
#elif defined(TOOL_P2HEX)
#include "src/p2hex.c"
#endif
#undef main
#undef exit

static void vp_lit(FILE* f, char c) { (void)f; (void)c; }
static void vp_num(FILE* f, char conv, int width, int zeropad, int longmod, unsigned long long val) { (void)f; (void)conv; (void)width; (void)zeropad; (void)longmod; (void)val; }
static void vp_str(FILE* f, const char* s, int width, int leftalign) { (void)f; (void)width; (void)leftalign; CHECK(s != NULL, "printf %s argument is a valid string"); }

char* getmessage(int n) { static char e[1]; (void)n; return e; }
char* catgetmessage(PMsgCat c, int n) { static char e[1]; (void)c; (void)n; return e; }
char* GetErrorMsg(int n) { static char e[1]; (void)n; return e; }
long FileSize(FILE* f) { return VF(f)->size; }
char const* Blanks(int n) { (void)n; return ""; }
static TFamilyDescr fam_known = { "FAM", 0x11, eHexFormatDefault };
unsigned char in_famknown;
PFamilyDescr FindFamilyById(Word Num) { (void)Num; return (in_famknown & 1) ? &fam_known : NULL; }
void InitChunk(ChunkList* c) { (void)c; }
Boolean AddChunk(ChunkList* c, LargeWord s, LargeWord l, Boolean w) { (void)c; (void)s; (void)l; (void)w; return False; }

static VFILE src, targ;
static char srcname[2] = "s";
static VFILE* vf_open_hook(const char* name, const char* mode)
{ (void)mode; if (name == srcname) { src.pos = 0; src.eof = 0; return &src; } targ.pos = 0; return &targ; }

static void vexit(int code)
{
  exit_code = code;
  CHECK(code == 2 || code == 3, "a malformed file ends the utility with the documented I/O (2) or format-error (3) status");
  WITNESS("rejected with a documented status");
#ifdef REPLAY
  fflush(stdout); _Exit(0);
#else
  __CPROVER_assume(0);
#endif
}

void harness(void)
{
  LOAD(in_famknown);
#ifdef STRUCTURED
  {
    int r;
    cf_load(); LOAD(in_trunc);
    for (r = 0; r < CF_R; r++) { ASSUME(in_rkind[r] <= 4); ASSUME(in_rlen[r] <= CF_L); }
    cf_build();
    ASSUME(in_trunc <= cf_size);
    src.kind = VF_READ; src.data = cf_buf; src.size = in_trunc; src.cap = CF_CAP;
  }
#else
  LOADA(in_file, NB); LOAD(in_len);
  ASSUME(in_len <= NB);
#ifdef GOOD_MAGIC
  in_file[0] = 0x89; in_file[1] = 0x14;
#endif
  src.kind = VF_READ; src.data = in_file; src.size = in_len; src.cap = NB;
#endif
  targ.kind = VF_WIT; targ.pos = targ.size = 0; targ.wit_off = 0; targ.wit_set = 0;
  QuietMode = True; DoFilter = False; FilterCnt = 0;
  errno = 0;
#if defined(TOOL_P2BIN)
  StartAdr = 0; StopAdr = 15; StartAuto = StopAuto = False; FillVal = 0xff; DoCheckSum = False;
  SizeDiv = 1; ANDMask = 0; ANDEq = 0; EntryAdrPresent = False; StartHeader = 0; ValidSegment = SegCode; MaxGran = 1;
  strcpy(TargName, "t");
  MeasureFile(srcname, 0);
  OpenTarget();
  ProcessFile(srcname, 0);
  CloseTarget();
#elif defined(TOOL_PBIND)
  {
    static unsigned char copybuf[BufferSize];
    Buffer = copybuf; strcpy(TargName, "t");
    OpenTarget();
    ProcessFile(srcname);
    CloseTarget();
  }
#elif defined(TOOL_PLIST)
  NumFiles = 1;
  ProcessSingle(srcname);
#elif defined(TOOL_P2HEX)
  {
    int sg;
    for (sg = 0; sg < SegCount; sg++) { StartAdr[sg] = 0; StopAdr[sg] = 15; }
#ifndef P2HEX_LINELEN
#define P2HEX_LINELEN 16
#endif
    LineLen = P2HEX_LINELEN; Relocate = 0; RelAdr = False; ForceSegment = SegNone; IntelMode = 0; MultiMode = 0; MinMoto = 1; Rec5 = True; SepMoto = False; AVRLen = 3;
    DestFormat = HEXFMT; FormatOccured = 0; MaxMoto = 0; MaxIntel = 0; EntryAdrPresent = False; CFormat[0] = 0; strcpy(TargName, "t");
    TargFile = (FILE*)(void*)&targ;
    ProcessFile(srcname, 0);
  }
#endif
  WITNESS("accepted");
  WITNESS("end");
}
