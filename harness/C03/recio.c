/* C03: the code-file record reader shared by all utilities -- ReadRecordHeader(), SkipRecord(),
 * ReadRelocInfo()/DestroyRelocInfo() of toolutils.c -- on NB arbitrary bytes (no well-formedness
 * assumption): no memory fault, exit only with the documented status, every step consumes input
 * or ends (the caller's record loop is modelled with at most NB+2 iterations).
 */
#include "vlib.h"
#include <stdio.h>
#include <stdlib.h>
#include "vfile.h"
static int exit_code = -1;
static void vexit(int code);
#define exit(n) vexit(n)
#define fprintf(...) ((void)0)
#define printf(...) ((void)0)
#define main tool_main
#include "src/toolutils.c"
#undef main
#undef exit
char* getmessage(int n) { static char e[1]; (void)n; return e; }
char* catgetmessage(PMsgCat c, int n) { static char e[1]; (void)c; (void)n; return e; }
char* GetErrorMsg(int n) { static char e[1]; (void)n; return e; }
long FileSize(FILE* f) { return VF(f)->size; }

#ifndef NB
#define NB 12
#endif
unsigned char in_file[NB], in_len;
static VFILE src;
static VFILE* vf_open_hook(const char* name, const char* mode) { (void)name; (void)mode; return &src; }
static void vexit(int code)
{
  exit_code = code;
  CHECK(code == 2 || code == 3, "documented I/O (2) or format-error (3) status");
#ifdef REPLAY
  _Exit(0);
#else
  __CPROVER_assume(0);
#endif
}

#ifdef K_RELOC
/* relocation-info record body (after its $83 header byte): counts RelocCount, ExportCount, StringLen followed by the tables.
   Whatever ReadRelocInfo returns non-NULL must be safe to print: every entry name points into the string table and the
   table ends in NUL (plist prints the names with %s). */
void harness(void)
{
  PRelocInfo p; unsigned rc, ec, sl; int z;
  LOADA(in_file, NB); LOAD(in_len);
  ASSUME(in_len <= NB);
  rc = in_file[0] | (in_file[1] << 8) | (in_file[2] << 16) | ((unsigned)in_file[3] << 24);
  ec = in_file[4] | (in_file[5] << 8) | (in_file[6] << 16) | ((unsigned)in_file[7] << 24);
  sl = in_file[8] | (in_file[9] << 8) | (in_file[10] << 16) | ((unsigned)in_file[11] << 24);
  ASSUME(rc <= 1 && ec <= 1 && sl <= 3);                 /* stated bound: table sizes */
  src.kind = VF_READ; src.data = in_file; src.size = in_len; src.cap = NB; src.pos = 0;
  errno = 0;
  p = ReadRelocInfo((FILE*)(void*)&src);
  if (p)
  {
    CHECK((unsigned)p->RelocCount == rc && (unsigned)p->ExportCount == ec, "counts as found in the file");
    for (z = 0; z < 1; z++) if (z < p->RelocCount)
      CHECK(p->RelocEntries[z].Name >= p->Strings && p->RelocEntries[z].Name < p->Strings + sl, "relocation entry name lies inside the string table");
    for (z = 0; z < 1; z++) if (z < p->ExportCount)
      CHECK(p->ExportEntries[z].Name >= p->Strings && p->ExportEntries[z].Name < p->Strings + sl, "export entry name lies inside the string table");
    if (sl > 0) CHECK(p->Strings[sl - 1] == 0, "string table is NUL-terminated");
    if (rc + ec > 0) WITNESS("accepted table with an entry");
    DestroyRelocInfo(p);
    WITNESS("accepted");
  }
  else WITNESS("rejected");
  WITNESS("end");
}
#else
void harness(void)
{
  Byte Header = 0xEE, CPU = 0, Segment = 0, Gran = 1; int it;
  LOADA(in_file, NB); LOAD(in_len);
  ASSUME(in_len <= NB);
  src.kind = VF_READ; src.data = in_file; src.size = in_len; src.cap = NB; src.pos = 0;
  errno = 0;
  for (it = 0; it < NB + 2; it++)
  {
    long before = src.pos;
    if (src.pos >= src.size) break;                       /* the utilities check for the end of file themselves */
    ReadRecordHeader(&Header, &CPU, &Segment, &Gran, "f", (FILE*)(void*)&src);
    if (Header == FileHeaderRelocInfo)
    {
      /* bound: table sizes as found in the file are limited so that the allocation loops stay inside the unwinding bound */
      PRelocInfo p = ReadRelocInfo((FILE*)(void*)&src);
      if (p) DestroyRelocInfo(p);
    }
    else if (Header == FileHeaderEnd) break;
    else SkipRecord(Header, "f", (FILE*)(void*)&src);
    CHECK(src.pos > before, "every record consumes input (no livelock on a malformed file)");
  }
  WITNESS("end");
}
#endif
