/* C03: the code-file record reader shared by all utilities -- ReadRecordHeader(), SkipRecord(),
 * ReadRelocInfo()/DestroyRelocInfo() of toolutils.c -- on NB arbitrary bytes (no well-formedness
 * assumption): no memory fault, exit only with the documented status, every step consumes input
 * or ends (the caller's record loop is modelled with at most NB+2 iterations).
 */
#include "vlib.h"
#include <stdio.h>
#include <stdlib.h>
#include "vfile.h"
static int exit_code = -1;
static void vexit(int code);
#define exit(n) vexit(n)
#define fprintf(...) ((void)0)
#define printf(...) ((void)0)
#define main tool_main
#include "src/toolutils.c"
#undef main
#undef exit
char* getmessage(int n) { static char e[1]; (void)n; return e; }
char* catgetmessage(PMsgCat c, int n) { static char e[1]; (void)c; (void)n; return e; }
char* GetErrorMsg(int n) { static char e[1]; (void)n; return e; }

#ifndef NB
#define NB 12
#endif
unsigned char in_file[NB], in_len;
static VFILE src;
static VFILE* vf_open_hook(const char* name, const char* mode) { (void)name; (void)mode; return &src; }
static void vexit(int code)
{
  exit_code = code;
  CHECK(code == 2 || code == 3, "documented I/O (2) or format-error (3) status");
#ifdef REPLAY
  _Exit(0);
#else
  __CPROVER_assume(0);
#endif
}

void harness(void)
{
  Byte Header = 0xEE, CPU = 0, Segment = 0, Gran = 1; int it;
  LOADA(in_file, NB); LOAD(in_len);
  ASSUME(in_len <= NB);
  src.kind = VF_READ; src.data = in_file; src.size = in_len; src.cap = NB; src.pos = 0;
  errno = 0;
  for (it = 0; it < NB + 2; it++)
  {
    long before = src.pos;
    if (src.pos >= src.size) break;                       /* the utilities check for the end of file themselves */
    ReadRecordHeader(&Header, &CPU, &Segment, &Gran, "f", (FILE*)(void*)&src);
    if (Header == FileHeaderRelocInfo)
    {
      /* bound: table sizes as found in the file are limited so that the allocation loops stay inside the unwinding bound */
      PRelocInfo p = ReadRelocInfo((FILE*)(void*)&src);
      if (p) DestroyRelocInfo(p);
    }
    else if (Header == FileHeaderEnd) break;
    else SkipRecord(Header, "f", (FILE*)(void*)&src);
    CHECK(src.pos > before, "every record consumes input (no livelock on a malformed file)");
  }
  WITNESS("end");
}
