"""C02 obligations (DESIGN.md C02)."""
BASE = dict(src="err.c", include=["asmerr.c"], units=["asmdef.c"], stubs=["fmt_off.c"],
            cuts={"asmerr.c": ["ErrorNum2String", "GenLineForMarking", "GenLineMarker"]},
            assumes=["message text, position string, listing and console output cut (empty bodies)",
                     "exit() modelled: records the status, checks it, ends the path"])
def ob(name, d, fn, bounds, **kw):
    o = dict(BASE); o.update(name=name, defs=[d, "STRINGSIZE=16"], functions=["asmerr.c:" + f for f in fn], bounds=bounds, unwind=20); o.update(kw); return o
OBLIGATIONS = [
    ob("counters", "K_COUNTERS", ["WrErrorString"], "inductive step: any counts e,w < 2^31, any Warning/Fatal/-Werror/-maxerrors"),
    ob("classify", "K_CLASSIFY", ["WrXErrorPos", "WrErrorString", "FindAndTakeExpectError"], "every 16-bit message number x suppression options"),
    ob("expect", "K_EXPECT", ["CodeEXPECT", "CodeENDEXPECT", "FindAndTakeExpectError", "AddExpectError", "AsmErrPassInit", "AsmErrPassExit", "WrXErrorPos"],
       "<= 3 announced numbers, <= 3 raised numbers, all symbolic"),
]
OBLIGATIONS.append(dict(
    name="assemblefile", src="asmfile.c", include=["as.c"], units=["asmdef.c"], stubs=["fmt_off.c"], defs=["STRINGSIZE=16", "FMT_OFF_NO_PRINTF"],
    cuts={"as.c": ["ProcessFile", "AssembleFile_InitPass", "AssembleFile_ExitPass"]}, nobody_mode="nondet", unwind=20, unwind_fn={"harness": 8},
    functions=["as.c:AssembleFile", "as.c:AssembleFile_WrSummary"], timeout=900,
    bounds="<= 3 passes, arbitrary error/warning counts and repass request per pass, any combination of code/share/macro outputs",
    assumes=["the per-pass assembler run is a stub leaving arbitrary ErrorCount/WarnCount/Repass", "frame assumption: every other callee of AssembleFile (module init, listing, tables) has no effect on ErrorCount/Repass/GlobErrFlag/output names; their bodies are 'return nondet'",
             "file system: ghost exists-bit per output name driven by OpenFile/fopen/unlink"]))
OBLIGATIONS.append(dict(
    name="assemblegroup", src="asmfile.c", include=["as.c"], units=["asmdef.c"], stubs=["fmt_off.c"], defs=["STRINGSIZE=16", "FMT_OFF_NO_PRINTF", "K_GROUP"],
    cuts={"as.c": ["ProcessFile", "AssembleFile_InitPass", "AssembleFile_ExitPass", "AssembleFile"]}, nobody_mode="nondet", unwind=20, unwind_fn={"harness": 8},
    functions=["as.c:AssembleGroup"], bounds="one source-file argument matching 0..3 files, each failing or not, failure mark set or clear on entry",
    assumes=["AssembleFile replaced by its contract (obligation assemblefile): sets the failure mark on error, never clears it", "DirScan calls the callback once per matching file"]))
META = dict(outside=["main()'s loop over the arguments and final return GlobErrFlag ? 2 : 0 (read; the single GlobErrFlag = False in main() precedes the loop)", "-E redirection and -q text (formatting)",
                     "that every error site of the ~100 code generators goes through WrError*"],
            assumptions=["malloc never fails"])
