/* C02-K1/K2 (+ C20-K4): diagnostic counting, classification and EXPECT bookkeeping
 * of the real asmerr.c.  Message text, position strings and output channels are cut.
 */
#include "vlib.h"
#include <stdio.h>
#include <stdlib.h>

static int exit_code = -1, exit_expected, emergency_stops;
static void vexit(int code);
static int unlinked_out, unlinked_other;
static int vunlink(const char* n);
#define exit(n) vexit(n)
#define fprintf(...) ((void)0)
#define unlink(n) vunlink(n)
#include "src/asmerr.c"
#undef exit
#undef fprintf
#undef unlink
static int vunlink(const char* n) { if (n == OutName) unlinked_out++; else unlinked_other++; return 0; }
void CloseIfOpen(FILE** f) { *f = NULL; }

/* ---- cut callees (contracts) ---- */
static void GenLineMarker(char* pDest, unsigned DestSize, char Marker, const struct sLineComp* pLineComp, char const* pPrefix)
{ (void)DestSize; (void)Marker; (void)pLineComp; (void)pPrefix; pDest[0] = 0; }
static void GenLineForMarking(char* pDest, unsigned DestSize, char const* pSrc, char const* pPrefix)
{ (void)DestSize; (void)pSrc; (void)pPrefix; pDest[0] = 0; }
static char const* ErrorNum2String(tErrorNum Num, char* Buf, int BufSize) { (void)Num; (void)BufSize; Buf[0] = 0; return Buf; }
char* GetErrorPos(void) { return NULL; }
char* getmessage(int Num) { static char e[1]; (void)Num; return e; }
void WrLstLine(char const* Line) { (void)Line; }
void WrConsoleLine(char const* pLine, Boolean NewLine) { (void)pLine; (void)NewLine; }
static FILE* the_errfile;
void OpenWithStandard(FILE** ppFile, char* Path) { (void)Path; *ppFile = the_errfile; }
char* GetErrorMsg(int n) { static char e[1]; (void)n; return e; }
Boolean ChkArgCntExtPos(int ThisCnt, int MinCnt, int MaxCnt, const struct sLineComp* pComp)
{ (void)pComp; if (ThisCnt < MinCnt || ThisCnt > MaxCnt) { WrError(ErrNum_WrongArgCnt); return False; } return True; }

#define NEXP 3
unsigned short in_expnum[NEXP];
unsigned char in_expok[NEXP];
static int exp_call;
LargeInt EvalStrIntExpression(const struct sStrComp* pExpr, IntType Type, Boolean* pResult)
{ int k = exp_call < NEXP ? exp_call : NEXP - 1; (void)pExpr; (void)Type; exp_call++; *pResult = in_expok[k] & 1; return in_expnum[k]; }

/* ---- inputs ---- */
unsigned long long in_e, in_w;
unsigned char in_warning, in_fatal, in_twae, in_supp, in_codeoutput, in_repass, in_nexp, in_nraise;
LongWord in_maxerr;
unsigned short in_num, in_raise[NEXP];

static void vexit(int code)
{
  exit_code = code;
  CHECK(code == 3, "a fatal condition ends the run with status 3");
  CHECK(exit_expected, "the run is aborted only after a fatal error or when -maxerrors is reached");
  CHECK(!CodeOutput || unlinked_out == 1, "no code file is left behind after a fatal error");
#ifndef K_EXPECT
  WITNESS("exit path");
#endif
#ifdef REPLAY
  fflush(stdout); _Exit(0);
#else
  __CPROVER_assume(0);
#endif
}

static tStrComp argstore[NEXP + 2];
static char ll[STRINGSIZE], ol[STRINGSIZE], lst[4] = "x", en[2] = "", outn[2] = "o";

static void common(void)
{
  ListLine = ll; OneLine.p_str = ol; LstName = lst; ErrorName = en;
  the_errfile = (FILE*)(void*)&exit_code;     /* any non-NULL handle; fprintf is cut */
  ErrorFile = the_errfile;
  ExtendErrors = 0; GNUErrors = False; NumericErrors = False; ListOn = 0;
  ArgStr = argstore; OutName = outn; ShareMode = 0; MacProOutput = MacroOutput = False; MakeDebug = False; CodeOutput = True;
}

void harness(void)
{
  common();
#if defined(K_COUNTERS)
  {
    int eff_warning, should_exit;
    LOAD(in_e); LOAD(in_w); LOAD(in_warning); LOAD(in_fatal); LOAD(in_twae); LOAD(in_maxerr);
    ASSUME(in_e < 0x80000000ull && in_w < 0x80000000ull);
    ASSUME(in_warning <= 1 && in_fatal <= 1 && in_twae <= 1);
    ErrorCount = in_e; WarnCount = in_w;
    /* inductive hypothesis: the counters hold the true number of diagnostics so far.
       (With a 16-bit counter this restricts e, w to 0..65535 and the step from 65535 fails.) */
    ASSUME(ErrorCount == in_e && WarnCount == in_w);
    TreatWarningsAsErrors = in_twae; MaxErrors = in_maxerr;
    eff_warning = in_warning && !(in_twae && !in_fatal);
    should_exit = in_fatal || (in_maxerr && (in_e + (eff_warning ? 0 : 1)) >= in_maxerr);
    exit_expected = should_exit;
    WrErrorString("m", "", in_warning, in_fatal, NULL, NULL);
    CHECK(!should_exit, "fatal error / error limit ends the run (exit 3)");
    if (eff_warning)
    {
      CHECK((unsigned long long)WarnCount == in_w + 1, "a warning increments the warning count by exactly one");
      CHECK((unsigned long long)ErrorCount == in_e, "a warning leaves the error count alone");
    }
    else
    {
      CHECK((unsigned long long)ErrorCount == in_e + 1, "an error increments the error count by exactly one");
      CHECK((unsigned long long)WarnCount == in_w, "an error leaves the warning count alone");
    }
  }
#elif defined(K_CLASSIFY)
  {
    /* one diagnostic number through WrXErrorPos: class by number, suppression rules */
    unsigned long long e0 = 5, w0 = 7;
    int suppressed;
    LOAD(in_num); LOAD(in_supp); LOAD(in_codeoutput); LOAD(in_repass); LOAD(in_twae);
    ASSUME(in_supp <= 1 && in_codeoutput <= 1 && in_repass <= 1 && in_twae <= 1);
    ErrorCount = e0; WarnCount = w0; MaxErrors = 0; TreatWarningsAsErrors = in_twae;
    SuppWarns = in_supp; CodeOutput = in_codeoutput; Repass = in_repass; JmpErrors = 0;
    exit_expected = (in_num >= 10000);
    suppressed = (in_supp && in_num < 1000) || (!in_codeoutput && in_num == ErrNum_UnknownInstruction);
    WrXErrorPos((tErrorNum)in_num, NULL, NULL);
    CHECK(in_num < 10000, "numbers >= 10000 are fatal");
    if (suppressed)
      CHECK(ErrorCount == e0 && WarnCount == w0, "suppressed diagnostics are not counted");
    else if (in_num < 1000 && !in_twae)
      CHECK(ErrorCount == e0 && WarnCount == w0 + 1, "numbers < 1000 count as warnings");
    else
      CHECK(ErrorCount == e0 + 1 && WarnCount == w0, "numbers >= 1000 (and warnings under -Werror) count as errors");
    if ((in_num == ErrNum_JmpDistTooBig || in_num == ErrNum_TargOnDiffPage) && !in_repass && !suppressed)
      CHECK(JmpErrors == 1, "jump-distance errors are tallied while no repass is pending");
    else
      CHECK(JmpErrors == 0, "other diagnostics do not touch JmpErrors");
  }
#elif defined(K_EXPECT)
  {
    /* EXPECT n1[,n2,n3] ; up to 3 raised diagnostics ; ENDEXPECT */
    int i, j, taken[NEXP], announced = 0;
    unsigned long long errs = 0, warns = 0;
    LOADA(in_expnum, NEXP); LOADA(in_expok, NEXP); LOADA(in_raise, NEXP); LOAD(in_nexp); LOAD(in_nraise);
    ASSUME(in_nexp >= 1 && in_nexp <= NEXP && in_nraise <= NEXP);
    /* the EXPECT mechanism's own diagnostics (2130..2160) as announced numbers are self-referential
       and outside the claim */
    for (i = 0; i < NEXP; i++) ASSUME(!(in_expnum[i] >= 2130 && in_expnum[i] <= 2160) && !(in_raise[i] >= 2130 && in_raise[i] <= 2160));
    for (i = 0; i < NEXP; i++) { ASSUME(in_raise[i] >= 1 && in_raise[i] < 10000 && in_raise[i] != ErrNum_UnknownInstruction); taken[i] = 0; }
    AsmErrPassInit();
    MaxErrors = 0; TreatWarningsAsErrors = False; SuppWarns = False; CodeOutput = True; Repass = False;
    ArgCnt = in_nexp; exp_call = 0;
    CodeEXPECT(0);
    CHECK(ErrorCount == 0 && WarnCount == 0, "EXPECT itself raises nothing");
    for (i = 0; i < NEXP; i++) if (i < in_nexp && (in_expok[i] & 1)) announced++;
    for (j = 0; j < NEXP; j++)
      if (j < in_nraise)
      {
        int hit = -1;
        LongWord e_before = ErrorCount, w_before = WarnCount;
        for (i = 0; i < NEXP; i++)
          if (hit < 0 && i < in_nexp && (in_expok[i] & 1) && !taken[i] && in_expnum[i] == in_raise[j]) hit = i;
        WrError((tErrorNum)in_raise[j]);
        if (hit >= 0)
        {
          /* any un-consumed announcement with this number may be the one consumed */
          taken[hit] = 1;
          CHECK(ErrorCount == e_before && WarnCount == w_before, "an announced message is suppressed");
          WITNESS("suppressed one");
        }
        else if (in_raise[j] < 1000)
          CHECK(ErrorCount == e_before && WarnCount == w_before + 1, "an unannounced warning is reported");
        else
          CHECK(ErrorCount == e_before + 1 && WarnCount == w_before, "an unannounced error is reported");
      }
    {
      LongWord e_before = ErrorCount; int left = 0;
      for (i = 0; i < NEXP; i++) if (i < in_nexp && (in_expok[i] & 1) && !taken[i]) left++;
      ArgCnt = 0;
      CodeENDEXPECT(0);
      CHECK(ErrorCount == e_before + (LongWord)left, "ENDEXPECT reports every announced message that did not occur, and nothing else");
      if (left) WITNESS("unconsumed announcement reported");
    }
    /* nesting / missing partner */
    {
      LongWord e_before = ErrorCount;
      ArgCnt = 0;
      CodeENDEXPECT(0);
      CHECK(ErrorCount == e_before + 1, "ENDEXPECT without EXPECT is an error");
      ArgCnt = 1; exp_call = 0; e_before = ErrorCount;
      CodeEXPECT(0);
      CodeEXPECT(0);
      CHECK(ErrorCount == e_before + 1, "nested EXPECT is an error");
      e_before = ErrorCount;
      AsmErrPassExit();
      CHECK(ErrorCount == e_before + 1, "EXPECT left open at the end of a pass is an error");
    }
  }
#endif
  WITNESS("end");
}
