/* C02-K3: decision skeleton of AssembleFile() in as.c.
 * Everything that is not part of the decision is cut: the per-pass assembler run
 * (ProcessFile) is replaced by a stub that leaves ARBITRARY error/warning counts and an
 * arbitrary repass request per pass; file creation/removal is tracked with a ghost
 * "exists" bit per output name.
 */
#include "vlib.h"
#include <stdio.h>
#include <stdlib.h>
#include <stdarg.h>

static int ex_out, ex_share, ex_macpro, ex_macro;          /* ghost: file exists */
static int vunlink(const char* n);
static FILE* vfopen(const char* n, const char* m);
#define unlink(n) vunlink(n)
#define fopen(n, m) vfopen(n, m)
#define fprintf(...) ((void)0)
#define printf(...) ((void)0)
#define main asl_main
#include "src/as.c"
#undef main
#undef unlink
#undef fopen

LongWord ErrorCount, WarnCount;            /* asmerr.c is not linked: the counters live here */
#define NP 3
LongWord in_err[NP], in_warn[NP];
unsigned char in_repass[NP], in_codeoutput, in_sharemode, in_macpro, in_macro, in_quiet, in_gef, in_errpath;
static int passes_run;
static unsigned sum_err = 0xEEEEEEEE, sum_warn = 0xEEEEEEEE; static int sum_seen;

/* ---- cut statics of as.c ---- */
static void AssembleFile_InitPass(void) { PassNo++; }
static void AssembleFile_ExitPass(void) {}
static void ProcessFile(char* FileName)
{
  int p = passes_run < NP ? passes_run : NP - 1;
  (void)FileName;
  ErrorCount = in_err[p]; WarnCount = in_warn[p]; Repass = in_repass[p] & 1;
  passes_run++;
}

/* ---- environment with an effect on the decision state ---- */
void AsmErrPassInit(void) { ErrorCount = 0; WarnCount = 0; }
void OpenFile(void) { ex_out = 1; }
void CloseFile(void) {}
static FILE* vfopen(const char* n, const char* m)
{
  (void)m;
  if (n == ShareName) ex_share = 1; else if (n == MacProName) ex_macpro = 1; else if (n == MacroName) ex_macro = 1;
  return (FILE*)(void*)&passes_run;
}
static int vunlink(const char* n)
{
  if (n == OutName) ex_out = 0; else if (n == ShareName) ex_share = 0; else if (n == MacProName) ex_macpro = 0; else if (n == MacroName) ex_macro = 0;
  return 0;
}
static char empty[1];
char* GetFromOutList(void) { return empty; }
char* GetFromListOutList(void) { return empty; }
char* GetFromShareOutList(void) { return empty; }
char* getmessage(int n) { (void)n; return empty; }
void OpenWithStandard(FILE** ppFile, char* Path) { (void)Path; *ppFile = (FILE*)(void*)&passes_run; }
static int errlog_closed;
void CloseIfOpen(FILE** f) { if (f == &ErrorFile) errlog_closed++; *f = NULL; }
int as_snprintf(char* pDest, size_t DestSize, const char* pFormat, ...)
{
  va_list ap;
  if (DestSize) pDest[0] = 0;
  /* the two summary lines "%7u%s%s": capture the number handed to the formatter */
  if (pFormat[0] == '%' && pFormat[1] == '7' && pFormat[2] == 'u')
  {
    unsigned v;
    va_start(ap, pFormat); v = va_arg(ap, unsigned); va_end(ap);
    if (sum_seen == 0) sum_err = v; else if (sum_seen == 1) sum_warn = v;
    sum_seen++;
  }
  return 0;
}
int as_snprcatf(char* pDest, size_t DestSize, const char* pFormat, ...) { (void)pDest; (void)DestSize; (void)pFormat; return 0; }

static char n_src[STRINGSIZE], n_out[STRINGSIZE], n_err[STRINGSIZE], n_lst[STRINGSIZE], n_share[STRINGSIZE], n_macpro[STRINGSIZE], n_macro[STRINGSIZE], n_errpath[2] = "x";
static char n_cur[STRINGSIZE];
static char in_name[2] = "a";

#ifdef K_GROUP
/* C02-K4: AssembleGroup() -- one source-file argument: the failure mark survives every later file and argument.
 * AssembleFile is cut to its contract (verified above): it may set GlobErrFlag, it never clears it. */
#define NF 3
unsigned char in_nfiles, in_fail[NF], in_gef0;
static int files_done;
static void AssembleFile(char* Name) { (void)Name; if (files_done < NF && (in_fail[files_done] & 1)) GlobErrFlag = True; files_done++; }
Boolean DirScan(char* Mask, charcallback callback)
{ int i; (void)Mask; for (i = 0; i < NF; i++) if (i < in_nfiles) callback(in_name); return in_nfiles > 0; }
void AddSuffix(char* s, char const* Suff) { (void)s; (void)Suff; }
void harness(void)
{
  int i, any = 0;
  LOAD(in_nfiles); LOADA(in_fail, NF); LOAD(in_gef0);
  ASSUME(in_nfiles <= NF);
  GlobErrFlag = in_gef0 & 1;
  AssembleGroup(in_name);
  CHECK(files_done == in_nfiles, "every file matched by the argument is assembled once");
  for (i = 0; i < NF; i++) if (i < in_nfiles && (in_fail[i] & 1)) any = 1;
  CHECK((GlobErrFlag != 0) == ((in_gef0 & 1) || any), "the invocation is marked failed exactly when an earlier argument or one of this argument's files failed");
  if ((in_gef0 & 1) && !any) WITNESS("failure of an earlier argument survives a clean one");
  WITNESS("end");
}
#else
void harness(void)
{
  int p, last, k;
  LOADA(in_err, NP); LOADA(in_warn, NP); LOADA(in_repass, NP);
  LOAD(in_codeoutput); LOAD(in_sharemode); LOAD(in_macpro); LOAD(in_macro); LOAD(in_quiet); LOAD(in_gef); LOAD(in_errpath);
  ASSUME(in_codeoutput <= 1 && in_sharemode <= 3 && in_macpro <= 1 && in_macro <= 1 && in_quiet <= 1);
  /* bound: at most NP passes -- the last modelled pass does not ask for another one */
  ASSUME(in_err[NP - 1] != 0 || !(in_repass[NP - 1] & 1));

  SourceFile = n_src; OutName = n_out; ErrorName = n_err; LstName = n_lst; ShareName = n_share; MacProName = n_macpro; MacroName = n_macro;
  ErrorPath = n_errpath;
  n_errpath[0] = (in_errpath & 1) ? 'x' : 0;   /* -E <file> given (one log shared by all sources of the invocation) or not (one log per source) */
  CodeOutput = in_codeoutput; ShareMode = in_sharemode; MacProOutput = in_macpro; MacroOutput = in_macro; QuietMode = in_quiet;
  ListMode = 0; ListMask = 0; DebugMode = DebugNone; MakeDebug = False; MakeUseList = MakeCrossList = MakeSectionList = MakeIncludeList = False;
  GlobErrFlag = in_gef & 1;               /* an earlier file of the same invocation may already have failed */
  PrtInitString = empty; PrtExitString = empty; PrtTitleString = empty; CurrFileName = n_cur;

  AssembleFile(in_name);

  /* which pass was the last one, by the documented rule: repeat while no error and a repass is requested */
  last = 0;
  for (k = 0; k < NP - 1; k++) if (last == k && in_err[k] == 0 && (in_repass[k] & 1)) last = k + 1;
  CHECK(passes_run == last + 1, "the pass loop repeats exactly while the pass had no errors and requested a repass");
  CHECK((GlobErrFlag != 0) == ((in_gef & 1) || in_err[last] != 0), "the invocation is marked failed exactly when this file's final pass reported errors or an earlier file had failed");
  if ((in_gef & 1) && in_err[last] == 0) WITNESS("clean file after a failed one");
  if (in_errpath & 1) { CHECK(errlog_closed == 0, "-E <file>: the shared error log stays open across sources (closing it makes the next message truncate it)"); WITNESS("shared error log"); }
  else CHECK(errlog_closed >= 1, "without -E <file> the per-source error log is closed at the end of the source");
  if (in_codeoutput)
    CHECK(ex_out == (in_err[last] == 0), "a code file exists exactly when no error was reported");
  if (in_err[last] != 0)
  {
    CHECK(!ex_share && !ex_macpro, "share file and macro-processor output are removed on error");
    WITNESS("failed run");
  }
  else
  {
    if (in_sharemode) CHECK(ex_share, "share file kept on success");
    WITNESS("successful run");
  }
  CHECK(sum_seen == 2 && sum_err == (unsigned)in_err[last] && sum_warn == (unsigned)in_warn[last], "the summary prints the error and warning totals of the final pass");
  if (last == NP - 1) WITNESS("three passes");
  WITNESS("end");
}
#endif
