/* C04: code-file writer of asmcode.c -- one inductive step per operation from an
 * arbitrary state satisfying the representation invariant I (see DESIGN.md C04).
 *
 *   logical content  L(x) = x < pos ? file[x] : CodeBuffer[x - pos]
 *   I:  RecPos >= 2, LenPos = RecPos+8, CodeBufferFill < 512, CodeBufferFill <= LenSoFar,
 *       pos = RecPos + 10 + LenSoFar - CodeBufferFill   (pos = write position of the file)
 *
 * The file is a witness-cell model: one symbolic offset X is watched.
 */
#include "vlib.h"
#include <stdio.h>
#include "vfile.h"
static void* vmemcpy(void* d, const void* s, size_t n);
#define memcpy vmemcpy
#include "src/asmcode.c"
#undef memcpy
#include "diag.h"

#ifndef LMIN
#define LMIN 1
#endif
#ifndef LMAX
#define LMAX 8
#endif

static void* vmemcpy(void* d, const void* s, size_t n)
{
  size_t i; unsigned char* dd = (unsigned char*)d; const unsigned char* ss = (const unsigned char*)s;
  for (i = 0; i < n; i++) dd[i] = ss[i];
  return d;
}

/* ---- environment ---- */
LargeWord ProgCounter(void) { return PCs[ActPC]; }
LargeWord EProgCounter(void) { return PCs[ActPC] + Phases[ActPC]; }
Word Granularity(void) { return Grans[ActPC]; }
void ChkIO(tErrorNum e) { (void)e; }
void ChkXIO(tErrorNum e, char* x) { (void)e; (void)x; }
void DeleteChunk(ChunkList* c, LargeWord a, LargeWord l) { (void)c; (void)a; (void)l; }
void WriteCode(void) {}
void MakeList(char const* p) { (void)p; }
void LabelModify(LargeWord o, LargeWord n) { (void)o; (void)n; }

static VFILE prg;
static LargeWord pcs_store[SegCount + 1], phases_store[SegCount + 1];
static VFILE* vf_open_hook(const char* name, const char* mode) { (void)name; (void)mode; return &prg; }

/* ---- inputs ---- */
long in_recpos, in_X;
Word in_lensofar, in_fill, in_cnt;
unsigned in_codelen;
unsigned char in_gran, in_turn, in_listgran, in_w0, in_hdrid, in_actpc, in_relsegs, in_startpresent;
LargeWord in_pc, in_nstart, in_startadr;
unsigned char in_cb[CodeBufferSize + 1];
unsigned char in_code[LMAX + 8];
unsigned in_jj;

static long pos0, end0;

static unsigned char l0_at_X;                    /* L(X) before the operation (snapshot: the buffer is overwritten) */
static unsigned char L0(long x) { (void)x; return l0_at_X; }
static unsigned char L1(long x) { return x < prg.pos ? prg.wit_val : CodeBuffer[x - prg.pos]; }

static void load_state(void)
{
  LOAD(in_recpos); LOAD(in_X); LOAD(in_lensofar); LOAD(in_fill); LOAD(in_codelen); LOAD(in_gran); LOAD(in_turn);
  LOAD(in_listgran); LOAD(in_w0); LOAD(in_hdrid); LOAD(in_actpc); LOAD(in_relsegs); LOAD(in_pc); LOAD(in_nstart);
  LOAD(in_cnt); LOAD(in_startpresent); LOAD(in_startadr); LOAD(in_jj);
  LOADA(in_cb, CodeBufferSize + 1); LOADA(in_code, LMAX + 8);

  ASSUME(in_recpos >= 2 && in_recpos <= 0x10000000);
  ASSUME(in_fill < CodeBufferSize && in_fill <= in_lensofar);
  ASSUME(in_gran == 1 || in_gran == 2 || in_gran == 4);
  ASSUME(in_listgran == 1 || in_listgran == 2 || in_listgran == 4);
  ASSUME(in_actpc < SegCount && in_actpc != StructSeg);
  ASSUME(in_relsegs <= 1 && in_turn <= 1 && in_startpresent <= 1);

  RecPos = in_recpos; LenPos = RecPos + 8; LenSoFar = in_lensofar; CodeBufferFill = in_fill;
  CodeBuffer = in_cb;
  pos0 = RecPos + 10 + LenSoFar - CodeBufferFill;
  end0 = pos0 + CodeBufferFill;
  ASSUME(in_X >= 0 && in_X < end0 + 16 + LMAX);
  prg.kind = VF_WIT; prg.pos = pos0; prg.size = pos0; prg.wit_off = in_X; prg.wit_val = in_w0; prg.wit_set = 0;
  PrgFile = (FILE*)(void*)&prg;
  PCs = pcs_store; Phases = phases_store;
  ActPC = in_actpc; Grans[ActPC] = in_gran; HeaderID = in_hdrid; RelSegs = in_relsegs; ThisRel = in_relsegs;
  PCs[ActPC] = in_pc; Phases[ActPC] = 0;
  TurnWords = in_turn; ActListGran = in_listgran;
  PatchList = PatchLast = NULL; ExportList = ExportLast = NULL;
  StartAdrPresent = in_startpresent; StartAdr = in_startadr;
  MakeUseList = False;
  l0_at_X = (in_X < pos0) ? in_w0 : (in_X < end0) ? in_cb[in_X - pos0] : 0;
  BAsmCode = in_code; WAsmCode = (Word*)in_code; DAsmCode = (LongWord*)in_code;
  diag_reset();
}

static void check_invariant(void)
{
  CHECK(RecPos >= 2 && LenPos == RecPos + 8, "I: LenPos = RecPos + 8");
  CHECK(CodeBufferFill < CodeBufferSize && CodeBufferFill <= LenSoFar, "I: buffer fill < 512 and within the open record");
  CHECK(prg.pos == RecPos + 10 + LenSoFar - CodeBufferFill, "I: file position = header + payload written so far");
}

/* header bytes expected at the start of a fresh record */
static unsigned char hdr_byte(int k, LargeWord start)
{
  switch (k)
  {
    case 0: return in_relsegs ? FileHeaderRelocRec : FileHeaderDataRec;
    case 1: return in_hdrid;
    case 2: return in_actpc;
    case 3: return in_gran;
    case 4: case 5: case 6: case 7: return (unsigned char)(start >> (8 * (k - 4)));
    default: return 0;                              /* length placeholder */
  }
}

/* byte j of the line as it must be stored (TurnWords swaps complete listing words on this little-endian host) */
static unsigned char stored(unsigned j, unsigned len, const unsigned char* orig)
{
  unsigned lg = in_listgran;
  if (in_turn && lg > 1 && j < (len / lg) * lg) return orig[(j / lg) * lg + (lg - 1 - j % lg)];
  return orig[j];
}

void harness(void)
{
  unsigned char orig[LMAX + 8];
  unsigned len, k;
  long X;
  load_state();
  X = in_X;
  for (k = 0; k < LMAX + 8; k++) orig[k] = in_code[k];

#ifndef CBS_LMAX_DIRECT
#define CBS_LMAX_DIRECT 512
#endif
#if defined(K_WRITEBYTES)
  {
    int split;
    len = in_codelen * in_gran;
    ASSUME(in_codelen >= 1 && len >= LMIN && len <= LMAX);
#ifdef NO_TURN
    ASSUME(!in_turn);
#endif
    CodeLen = in_codelen;
    split = ((long)in_lensofar + (long)len) > 0xffff;
    WriteBytes();
    check_invariant();
    CHECK(diag_cnt == 0, "WriteBytes raises nothing");
    ASSUME(in_jj < len);
    CHECK(BAsmCode[in_jj] == orig[in_jj], "code buffer restored after an endian turn");
    if (!split)
    {
      CHECK(RecPos == in_recpos, "no split: same record");
      CHECK(LenSoFar == in_lensofar + len, "no split: record length grows by the line length");
      if (X < end0) CHECK(L1(X) == L0(X), "no split: everything written before is unchanged");
      else if (X < end0 + (long)len) CHECK(L1(X) == stored((unsigned)(X - end0), len, orig), "no split: line byte j lands at payload offset LenSoFar+j");
      WITNESS("no split");
      if (in_fill + len >= CodeBufferSize) WITNESS("flush path");
#if LMAX >= CBS_LMAX_DIRECT
      if (len >= CodeBufferSize) WITNESS("direct write path");
#endif
    }
    else
    {
      CHECK(RecPos == end0, "split: new record starts at the old end");
      CHECK(LenSoFar == len, "split: new record holds exactly this line");
      if (X == in_recpos + 8) CHECK(L1(X) == (in_lensofar & 0xff), "split: old record length back-patched (low)");
      else if (X == in_recpos + 9) CHECK(L1(X) == (in_lensofar >> 8), "split: old record length back-patched (high)");
      else if (X < end0) CHECK(L1(X) == L0(X), "split: everything written before is unchanged");
      else if (X < end0 + 10) CHECK(L1(X) == hdr_byte((int)(X - end0), in_pc), "split: fresh header (type, cpu, segment, granularity, start = PC, length 0)");
      else if (X < end0 + 10 + (long)len) CHECK(L1(X) == stored((unsigned)(X - end0 - 10), len, orig), "split: line bytes follow the new header");
      WITNESS("split at 64K");
    }
  }
#elif defined(K_NEWRECORD)
  NewRecord(in_nstart);
  check_invariant();
  CHECK(LenSoFar == 0 && CodeBufferFill == 0, "NewRecord: fresh record is empty, buffer flushed");
  if (in_lensofar == 0)
  {
    CHECK(RecPos == in_recpos, "empty record is overwritten in place");
    if (X < in_recpos) CHECK(L1(X) == L0(X), "bytes before the record unchanged");
    else if (X < in_recpos + 10) CHECK(L1(X) == hdr_byte((int)(X - in_recpos), in_nstart), "header rewritten with current CPU/segment/granularity/start");
    WITNESS("overwrite empty");
  }
  else
  {
    CHECK(RecPos == end0, "non-empty record is closed, new one appended");
    if (X == in_recpos + 8) CHECK(L1(X) == (in_lensofar & 0xff), "length back-patched (low)");
    else if (X == in_recpos + 9) CHECK(L1(X) == (in_lensofar >> 8), "length back-patched (high)");
    else if (X < end0) CHECK(L1(X) == L0(X), "everything written before is unchanged");
    else if (X < end0 + 10) CHECK(L1(X) == hdr_byte((int)(X - end0), in_nstart), "fresh header with new start address");
    WITNESS("append");
  }
#elif defined(K_OPEN)
  {
    static char on[4] = "o";
    OutName = on;
    prg.pos = prg.size = 0; prg.wit_val = 0xEE;
    OpenFile();
    check_invariant();
    CHECK(RecPos == 2 && LenSoFar == 0 && CodeBufferFill == 0, "OpenFile: first record directly after the magic");
    if (X == 0) CHECK(L1(X) == 0x89, "magic low byte");
    else if (X == 1) CHECK(L1(X) == 0x14, "magic high byte");
    else if (X < 12) CHECK(L1(X) == hdr_byte((int)(X - 2), in_pc), "first record header");
  }
#elif defined(K_CLOSE)
  {
    long rp;
    CloseFile();
    rp = in_lensofar ? end0 : in_recpos;
    CHECK(prg.was_closed == 1, "file closed once");
    if (in_lensofar && X == in_recpos + 8) CHECK(L1(X) == (in_lensofar & 0xff), "last record length back-patched (low)");
    else if (in_lensofar && X == in_recpos + 9) CHECK(L1(X) == (in_lensofar >> 8), "last record length back-patched (high)");
    else if (X < rp) CHECK(L1(X) == L0(X), "data records untouched by CloseFile");
    else if (in_startpresent)
    {
      if (X == rp) CHECK(L1(X) == FileHeaderStartAdr, "entry record type");
      else if (X < rp + 5) CHECK(L1(X) == (unsigned char)(in_startadr >> (8 * (X - rp - 1))), "entry address, little endian");
      else if (X == rp + 5) CHECK(L1(X) == FileHeaderEnd, "creator record follows the entry record");
      WITNESS("with entry");
    }
    else if (X == rp) CHECK(L1(X) == FileHeaderEnd, "empty last record replaced by the creator record");
  }
#elif defined(K_RETRACT)
  {
    unsigned elen = (unsigned)in_cnt * in_gran;
    ASSUME(in_cnt >= 1 && in_cnt <= 8);
    RetractWords(in_cnt);
    if (in_lensofar < elen)
    {
      CHECK(diag_cnt == 1, "retracting more than the record holds is refused");
      CHECK(LenSoFar == in_lensofar && CodeBufferFill == in_fill && prg.pos == pos0 && PCs[ActPC] == in_pc, "refused retract changes nothing");
    }
    else
    {
      check_invariant();
      CHECK(LenSoFar == in_lensofar - elen, "record length shrinks by the retracted bytes");
      CHECK(PCs[ActPC] == in_pc - in_cnt, "program counter moves back");
      if (X < end0 - (long)elen) CHECK(L1(X) == L0(X), "bytes before the retracted words unchanged");
      if (in_fill < elen) WITNESS("retract reaches into the file");
      WITNESS("retract ok");
    }
  }
#endif
  WITNESS("end");
}
