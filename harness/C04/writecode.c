/* C04-K4 / C10: WriteCode() of as.c -- reserve -> NewRecord(PC+len), emit -> WriteBytes(),
 * the active segment's counter advances by CodeLen, nothing is written when code output is off,
 * an address-range failure writes nothing.
 */
#include "vlib.h"
#include <stdio.h>
#include <stdlib.h>
#define main asl_main
#include "src/as.c"
#undef main
#include "diag.h"

static int n_newrecord, n_writebytes, n_bookkeeping; static LargeWord newrecord_arg;
void NewRecord(LargeWord NStart) { n_newrecord++; newrecord_arg = NStart; }
void WriteBytes(void) { n_writebytes++; }
void BookKeeping(void) { n_bookkeeping++; }
LargeWord ProgCounter(void) { return PCs[ActPC]; }
LargeWord EProgCounter(void) { return PCs[ActPC] + Phases[ActPC]; }
Word Granularity(void) { return Grans[ActPC]; }

LargeWord in_pc, in_phase, in_limit;
LongInt in_codelen;
unsigned char in_dontprint, in_codeoutput, in_seg;
static Boolean chk(LargeWord a) { return a <= in_limit; }
static LargeWord pcs_store[SegCountPlusStruct], phases_store[SegCountPlusStruct];
static unsigned char codebuf[64];

void harness(void)
{
  LOAD(in_pc); LOAD(in_phase); LOAD(in_limit); LOAD(in_codelen); LOAD(in_dontprint); LOAD(in_codeoutput); LOAD(in_seg);
  ASSUME(in_seg < SegCount && in_dontprint <= 1 && in_codeoutput <= 1);
  ASSUME(in_codelen >= 0 && in_codelen <= 0x10000);
  PCs = pcs_store; Phases = phases_store;
  ActPC = in_seg; PCs[ActPC] = in_pc; Phases[ActPC] = in_phase; PCsUsed[ActPC] = False;
  ChkPC = chk; StopfZahl = 0; ActListGran = 1; Grans[ActPC] = 1;
  CodeLen = in_codelen; DontPrint = in_dontprint; CodeOutput = in_codeoutput;
  BAsmCode = codebuf; WAsmCode = (Word*)codebuf; DAsmCode = (LongWord*)codebuf;
  diag_reset();

  WriteCode();

  if (in_codelen != 0 && !(in_pc + in_phase + in_codelen - 1 <= in_limit))
  {
    CHECK(diag_has(ErrNum_AdrOverflow), "code beyond the segment limit is reported");
    CHECK(n_newrecord == 0 && n_writebytes == 0 && PCs[ActPC] == in_pc, "a rejected line writes nothing and leaves the counter alone");
    WITNESS("address overflow");
  }
  else
  {
    CHECK(diag_cnt == 0, "no diagnostic");
    CHECK(PCs[ActPC] == in_pc + (LargeWord)in_codelen, "the active segment's counter advances by CodeLen");
    if (!in_codeoutput) CHECK(n_newrecord == 0 && n_writebytes == 0, "nothing is written when code output is off");
    else if (in_dontprint) { CHECK(n_newrecord == 1 && n_writebytes == 0 && newrecord_arg == in_pc + (LargeWord)in_codelen, "reservation: new record starting behind the reserved area"); WITNESS("reserve"); }
    else { CHECK(n_writebytes == 1 && n_newrecord == 0, "emission goes through WriteBytes exactly once"); WITNESS("emit"); }
    CHECK(n_bookkeeping == ((!in_dontprint && in_codelen > 0) ? 1 : 0), "book-keeping for emitted code only");
  }
  WITNESS("end");
}
