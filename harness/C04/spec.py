"""C04 obligations (DESIGN.md C04)."""
BASE = dict(src="writer.c", include=["asmcode.c"], units=["asmdef.c"], stubs=["diag.c", "fmt_off.c"],
            assumes=["stdio replaced by the witness-cell file model (stubs/vfile.h): writes transfer all bytes, no I/O errors",
                     "relocation/export lists empty (WrPatches outside the claim)",
                     "pre-state arbitrary within invariant I: RecPos>=2, LenPos=RecPos+8, CodeBufferFill<512<=..., pos=RecPos+10+LenSoFar-CodeBufferFill",
                     "ProgCounter/EProgCounter/Granularity re-stated as their one-line bodies"])
def ob(name, defs, fn, bounds, **kw):
    d = dict(BASE); d.update(unwind_fn={"load_state": 600, "harness": 600}); d.update(name=name, defs=defs, functions=["asmcode.c:" + f for f in fn], bounds=bounds); d.update(kw); return d
OBLIGATIONS = [
    ob("writebytes_small", ["K_WRITEBYTES", "LMIN=1", "LMAX=8"], ["WriteBytes", "FlushBuffer", "DreheCodes", "NewRecord", "WrRecHeader"],
       "line 1..8 bytes, granularity 1/2/4, CodeBufferFill 0..511, LenSoFar 0..65535, RecPos up to 2^28, TurnWords on/off; witness offset arbitrary",
       unwind=12, timeout=900),
    ob("writebytes_buf16", ["K_WRITEBYTES", "LMIN=1", "LMAX=24", "CBS_LMAX_DIRECT=16"], ["WriteBytes", "FlushBuffer", "DreheCodes", "NewRecord", "WrRecHeader"],
       "output buffer shrunk from 512 to 16 bytes (source substitution of the #define): line 1..24 bytes covering the buffered, flush and write-through paths, granularity 1/2/4, TurnWords on/off",
       subst={"asmcode.c": [("#define CodeBufferSize 512", "#define CodeBufferSize 16")]}, unwind=28, timeout=1500),
    ob("writebytes_buf32", ["K_WRITEBYTES", "LMIN=1", "LMAX=48", "CBS_LMAX_DIRECT=32"], ["WriteBytes", "FlushBuffer", "DreheCodes", "NewRecord", "WrRecHeader"],
       "output buffer shrunk from 512 to 32 bytes: line 1..48 bytes, granularity 1/2/4, TurnWords on/off",
       subst={"asmcode.c": [("#define CodeBufferSize 512", "#define CodeBufferSize 32")]}, unwind=52, timeout=3000, tier="thorough", mem_gb=24),
    ob("newrecord", ["K_NEWRECORD"], ["NewRecord", "WrRecHeader", "FlushBuffer"], "arbitrary I-state, arbitrary new start address", unwind=10),
    ob("openfile", ["K_OPEN"], ["OpenFile", "NewRecord", "WrRecHeader"], "arbitrary CPU id/segment/granularity/PC", unwind=10),
    ob("closefile", ["K_CLOSE"], ["CloseFile", "NewRecord"], "arbitrary I-state, with and without entry address", unwind=10),
    ob("retract", ["K_RETRACT"], ["RetractWords"], "1..8 words, arbitrary I-state", unwind=10),
    dict(name="writecode", src="writecode.c", include=["as.c"], units=["asmdef.c"], stubs=["diag.c", "fmt_off.c"], defs=["STRINGSIZE=16"], unwind=6,
         functions=["as.c:WriteCode"], bounds="any PC/phase/limit, CodeLen 0..65536, reserve/emit, code output on/off, any segment",
         assumes=["NewRecord/WriteBytes/BookKeeping replaced by call recorders", "not inside a structure definition"]),
]
META = dict(outside=["relocation records (WrPatches)", "that each target's MakeCode fills BAsmCode correctly (C09/C14)",
                     "WriteCode inside STRUCT/UNION definitions"],
            assumptions=["malloc never fails", "little-endian host (HostBigEndian == 0)"])
