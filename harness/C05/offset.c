/* C05: RemoveOffset() of toolutils.c -- the '(offset)' suffix of a file argument.
 * A name without a suffix yields offset 0 whatever the offset variable held before (the
 * callers reuse one static variable for all input files), and leaves the name alone.
 */
#include "vlib.h"
#include <stdio.h>
#include <stdlib.h>
#define main tool_main
#include "src/toolutils.c"
#undef main
char* getmessage(int n) { static char e[1]; (void)n; return e; }
char* catgetmessage(PMsgCat c, int n) { static char e[1]; (void)c; (void)n; return e; }
char* GetErrorMsg(int n) { static char e[1]; (void)n; return e; }

#define NL 5
char in_name[NL + 1];
LongWord in_prev, in_num;
unsigned char in_len;

/* ConstLongInt (strutil.c) cut to its contract: arbitrary value, success */
LargeInt ConstLongInt(char const* inp, Boolean* pErr, LongInt Base) { (void)inp; (void)Base; *pErr = True; return in_num; }

void harness(void)
{
  char name[NL + 1]; LongWord off; Boolean ok; unsigned i, l;
  LOADA(in_name, NL + 1); LOAD(in_prev); LOAD(in_num); LOAD(in_len);
  ASSUME(in_len <= NL);
  for (i = 0; i < NL + 1; i++) { name[i] = (i < in_len) ? in_name[i] : 0; if (i < in_len) ASSUME(in_name[i] != 0); }
  l = in_len;
  off = in_prev;
  ok = RemoveOffset(name, &off);
  if (l == 0 || name[l - 1] != ')' || in_name[l - 1] != ')')
  {
    if (l == 0 || in_name[l - 1] != ')')
    {
      CHECK(ok, "a name without an (offset) suffix is accepted");
      CHECK(off == 0, "a name without an (offset) suffix has offset 0, whatever the variable held before");
      for (i = 0; i < NL + 1; i++) CHECK(name[i] == ((i < in_len) ? in_name[i] : 0), "the name is left alone");
      WITNESS("no suffix");
    }
  }
  if (l >= 3 && in_name[l - 1] == ')' && in_name[0] != '(' && in_name[0] != ')' && in_name[1] == '(' && l == 4 && in_name[2] != '(' && in_name[2] != ')')
  {
    /* "x(d)": well-formed suffix */
    CHECK(ok && off == in_num, "the offset is the value between the parentheses");
    CHECK(name[0] == in_name[0] && name[1] == 0, "the suffix is cut off the name");
    WITNESS("suffix");
  }
  WITNESS("end");
}
