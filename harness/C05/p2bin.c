/* C05: P2BIN -- the real MeasureFile/OpenTarget/ProcessFile/CloseTarget (p2bin.c) and the
 * record reader / filter of toolutils.c on a code file built from symbolic records,
 * option state symbolic; output image checked byte-exact through a witness cell.
 */
#include "vlib.h"
#include <stdio.h>
#include <stdlib.h>
#include "vfile.h"
#include "cfbuild.h"

static int exit_code = -1, stderr_msgs;
static void vexit(int code);
static int vf_fprintf(FILE* f, const char* fmt, ...) { (void)fmt; if (f == stderr) stderr_msgs++; return 0; }
#define exit(n) vexit(n)
#define fprintf vf_fprintf
#define printf(...) ((void)0)
#define main p2bin_main
static void* vmemset(void* d, int c, size_t n);
#define memset vmemset
#include "src/toolutils.c"
#include "src/p2bin.c"
#undef main
#undef exit
#undef memset
/* memset of the whole 4096-byte copy buffer as one array operation (CBMC's byte-wise model of a
   4096-byte memset with a symbolic value exhausts memory); other sizes byte by byte */
static void* vmemset(void* d, int c, size_t n)
{
#ifdef REPLAY
  return memset(d, c, n);
#else
  size_t i;
  if (d == (void*)Buffer && n == BufferSize) { __CPROVER_array_set(Buffer, (Byte)c); return d; }
  for (i = 0; i < n; i++) ((unsigned char*)d)[i] = (unsigned char)c;
  return d;
#endif
}

/* ---- environment ---- */
/* chunks.c AddChunk cut to its contract (verified separately, obligation addchunk):
   returns True iff the new range truly intersects a range entered before. */
static LargeWord ck_start[CF_R + 1], ck_len[CF_R + 1]; static int ck_n;
void InitChunk(ChunkList* c) { (void)c; ck_n = 0; }
Boolean AddChunk(ChunkList* c, LargeWord NewStart, LargeWord NewLen, Boolean Warn)
{
  int i; Boolean hit = False;
  (void)c; (void)Warn;
  if (!NewLen) return False;
  for (i = 0; i < CF_R + 1; i++)
    if (i < ck_n && NewStart < ck_start[i] + ck_len[i] && ck_start[i] < NewStart + NewLen) hit = True;
  if (ck_n < CF_R + 1) { ck_start[ck_n] = NewStart; ck_len[ck_n] = NewLen; ck_n++; }
  return hit;
}
char* getmessage(int n) { static char e[1]; (void)n; return e; }
char* catgetmessage(PMsgCat c, int n) { static char e[1]; (void)c; (void)n; return e; }
char* GetErrorMsg(int n) { static char e[1]; (void)n; return e; }
long FileSize(FILE* f) { return VF(f)->size; }

static VFILE src, targ;
static char srcname[2] = "s";
static VFILE* vf_open_hook(const char* name, const char* mode)
{
  (void)mode;
  if (name == srcname) { src.pos = 0; src.eof = 0; return &src; }
  targ.pos = 0;
  return &targ;
}

static void vexit(int code)
{
  exit_code = code;
  CHECK(0, "p2bin must not abort on a well-formed code file");
#ifdef REPLAY
  fflush(stdout); _Exit(1);
#else
  __CPROVER_assume(0);
#endif
}

/* ---- inputs: option state ---- */
LongWord in_start, in_stop, in_offset, in_entry;
unsigned char in_startauto, in_stopauto, in_fill, in_mode, in_segment, in_dofilter, in_filter[2], in_nfilter, in_entrypresent;
signed char in_startheader;
long in_X;                 /* in_X < 0: witness is header byte -1-in_X; else byte offset in_X of the window (a byte ADDRESS, mapped to its image offset below) */

static const unsigned char ModeDivs[9]  = {1, 2, 2, 4, 4, 4, 4, 2, 2};
static const unsigned char ModeMasks[9] = {0, 1, 1, 3, 3, 3, 3, 2, 2};
static const unsigned char ModeEqs[9]   = {0, 0, 1, 0, 1, 2, 3, 0, 2};

static int rec_is_data(int r) { return in_rkind[r] <= 1; }
static unsigned rec_gran(int r) { return in_rkind[r] == 0 ? in_rgran[r] : Granularity(in_rcpu[r], SegCode); }
static unsigned rec_seg(int r) { return in_rkind[r] == 0 ? in_rseg[r] : SegCode; }
static int filter_ok(int r)
{
  int z;
  if (!in_dofilter) return 1;
  for (z = 0; z < 2; z++) if (z < in_nfilter && in_filter[z] == in_rcpu[r]) return 1;
  return 0;
}
static int rec_selected(int r) { return rec_is_data(r) && filter_ok(r) && rec_seg(r) == in_segment; }

#ifndef WINMAX
#define WINMAX 64
#endif
/* reference: number of byte addresses below b that pass the -m lane filter ((a & mask) == eq; mask <= 3, so the
   filter depends on a mod 4 only and every aligned group of 4 holds 4/div selected bytes) */
static unsigned long long lane_below(unsigned long long b, unsigned div, unsigned mask, unsigned eq)
{
  unsigned long long c = (b >> 2) * (4 / div); unsigned i;
  for (i = 0; i < 3; i++) if (i < (b & 3) && ((i & mask) == eq)) c++;
  return c;
}

void harness(void)
{
  unsigned G = 0, hdr, div, mask, eq;
  unsigned long long wtotal, wbase, flen; long wit_x;
  int r, nsel = 0, have_entry_rec = 0;
  LongWord exp_start, exp_stop, first_entry = 0;

  cf_load();
  LOAD(in_start); LOAD(in_stop); LOAD(in_offset); LOAD(in_entry); LOAD(in_startauto); LOAD(in_stopauto); LOAD(in_fill);
  LOAD(in_mode); LOAD(in_segment); LOAD(in_dofilter); LOADA(in_filter, 2); LOAD(in_nfilter); LOAD(in_entrypresent);
  LOAD(in_startheader); LOAD(in_X);

#ifdef MODE
  in_mode = MODE;                       /* one -m mode per obligation (keeps divisors constant) */
#endif
  /* ---- well-formed code file (builder), stated bounds ---- */
  for (r = 0; r < CF_R; r++)
  {
#ifdef GRAN
    in_rgran[r] = GRAN;                 /* one granularity per obligation */
#ifdef SHORTCPU
    if (in_rkind[r] == 1) in_rcpu[r] = SHORTCPU;     /* short-form records: a CPU id whose default granularity is GRAN */
#else
    ASSUME(in_rkind[r] != 1);
#endif
#endif
    ASSUME(in_rkind[r] <= 3);
    ASSUME(in_rcpu[r] != 0 && (in_rkind[r] != 1 || in_rcpu[r] < 0x80));   /* no CPU family has id 0 */
    ASSUME(in_rseg[r] < SegCount);
    ASSUME(in_rgran[r] == 1 || in_rgran[r] == 2 || in_rgran[r] == 4);
    ASSUME(in_rlen[r] <= CF_L);
    if (rec_is_data(r))
    {
      ASSUME(in_rlen[r] % rec_gran(r) == 0);                    /* whole address units */
      ASSUME(in_rlen[r] > 0);                                   /* zero-length records: C03 harness */
      ASSUME(in_rstart[r] <= 0x7fffff00u);
    }
  }
  cf_build();
  src.kind = VF_READ; src.data = cf_buf; src.size = cf_size; src.cap = CF_CAP;

  /* ---- option state as the option callbacks would leave it ---- */
  ASSUME(in_mode < 9 && in_segment < SegCount && in_startauto <= 1 && in_stopauto <= 1 && in_dofilter <= 1 && in_entrypresent <= 1);
  ASSUME(in_nfilter <= 2 && (!in_dofilter || in_nfilter >= 1));
#ifdef NOHDR
  in_startheader = 0;
#endif
  ASSUME(in_startheader >= -4 && in_startheader <= 4);
#ifdef NO_OFFSET
  ASSUME(in_offset == 0);
#else
  ASSUME(in_offset <= 0x1000);
#endif
  StartAdr = in_start; StopAdr = in_stop; StartAuto = in_startauto; StopAuto = in_stopauto;
  ASSUME(in_startauto || in_stopauto || in_start <= in_stop);
  FillVal = in_fill; DoCheckSum = False;
  SizeDiv = div = ModeDivs[in_mode]; ANDMask = mask = ModeMasks[in_mode]; ANDEq = eq = ModeEqs[in_mode];
  EntryAdr = in_entrypresent ? in_entry : (LongWord)-1; EntryAdrPresent = in_entrypresent;
  StartHeader = in_startheader; ValidSegment = in_segment;
  DoFilter = in_dofilter; FilterCnt = in_nfilter; FilterBytes[0] = in_filter[0]; FilterBytes[1] = in_filter[1];
  QuietMode = True;
  strcpy(TargName, "t");
  InitChunk(&UsedList);
  targ.kind = VF_WIT; targ.pos = targ.size = 0; targ.wit_off = -1; targ.wit_val = 0xEE; targ.wit_set = 0;
  ASSUME(in_X >= -4 && in_X < WINMAX);

  /* all selected records share one granularity (an image mixing granularities is not defined) */
  for (r = 0; r < CF_R; r++)
    if (rec_selected(r)) { if (!nsel) G = rec_gran(r); else ASSUME(rec_gran(r) == G); nsel++; }
  if (!nsel) G = 1;
  for (r = 0; r < CF_R; r++)
    if (in_rkind[r] == 2 && !have_entry_rec) { have_entry_rec = 1; first_entry = in_rstart[r]; }

  /* ---- the tail of main(), as in p2bin.c ---- */
  MaxGran = 1;
  if (StartAuto || StopAuto)
  {
    if (StartAuto) StartAdr = 0xfffffffful;
    if (StopAuto) StopAdr = 0;
    MeasureFile(srcname, in_offset);
    if (StartAdr > StopAdr) { WITNESS("auto range failed (nothing selected)"); return; }
  }
#ifdef EXPLICIT_ONLY
  ASSUME(!in_startauto && !in_stopauto);
#endif
  /* expected range */
  exp_start = in_start; exp_stop = in_stop;
  if (in_startauto) { exp_start = 0xfffffffful; for (r = 0; r < CF_R; r++) if (rec_selected(r) && in_rstart[r] + in_offset < exp_start) exp_start = in_rstart[r] + in_offset; }
  if (in_stopauto) { exp_stop = 0; for (r = 0; r < CF_R; r++) if (rec_selected(r) && in_rstart[r] + in_offset + in_rlen[r] / G - 1 > exp_stop) exp_stop = in_rstart[r] + in_offset + in_rlen[r] / G - 1; }
  CHECK(StartAdr == exp_start, "auto start = lowest used address of the selected records");
  CHECK(StopAdr == exp_stop, "auto stop = highest used address of the selected records");
  ASSUME(((unsigned long long)StopAdr - (unsigned long long)StartAdr + 1) * G <= WINMAX);   /* bound on the image size in bytes (the copy buffer is shrunk to 16) */
  if (in_startauto || in_stopauto) CHECK(MaxGran == G, "granularity of the selected records measured");
  else MaxGran = G;   /* explicit range: see known finding p2bin_maxgran */
  /* window start and length need not be aligned to the -m lane group: the image holds exactly the bytes of the
     window whose byte address passes the lane filter, in address order */

  /* image offset of the witness: number of window bytes below it that pass the lane filter (the filter depends on the
     byte address modulo 4 only) */
  hdr = (unsigned)(in_startheader < 0 ? -in_startheader : in_startheader);
  wtotal = ((unsigned long long)(StopAdr - StartAdr) + 1) * G; wbase = (unsigned long long)StartAdr * G;
  flen = lane_below(wbase + wtotal, div, mask, eq) - lane_below(wbase, div, mask, eq);
  if (in_X < 0) { ASSUME((unsigned)(-1 - in_X) < hdr); wit_x = -1 - in_X; }
  else
  {
    ASSUME((unsigned long long)in_X < wtotal && ((wbase + (unsigned long long)in_X) & mask) == eq);
    wit_x = (long)(hdr + lane_below(wbase + (unsigned long long)in_X, div, mask, eq) - lane_below(wbase, div, mask, eq));
  }
  targ.wit_off = wit_x;
#ifndef SKIP_OPEN
  OpenTarget();
#endif
#ifndef SKIP_PROCESS
  ProcessFile(srcname, in_offset);
#endif
#ifndef SKIP_CLOSE
  CloseTarget();
#endif

  /* ---- oracle ---- */
  {
    CHECK(targ.size == (long)(hdr + flen), "file length = entry header + selected range (scaled by granularity, thinned by -m)");
    if (in_X < 0)
    {
      int present = in_entrypresent || have_entry_rec;
      LongWord ea = in_entrypresent ? in_entry : first_entry;
      unsigned z = (unsigned)wit_x;
      unsigned char e = !present ? 0 : (in_startheader > 0) ? (unsigned char)(ea >> (8 * z)) : (unsigned char)(ea >> (8 * (hdr - 1 - z)));
      CHECK(targ.wit_set && targ.wit_val == e, "entry-address header in the requested width and byte order");
      WITNESS("header byte");
    }
    else
    {
      unsigned long long q = wbase + (unsigned long long)in_X, a, k;
      unsigned char e = in_fill;
      if ((wbase % 4) != 0 || (wtotal % 4) != 0) WITNESS("window not aligned to the lane group");
      a = q / G; k = q % G;
      for (r = 0; r < CF_R; r++)
        if (rec_selected(r))
        {
          unsigned long long s = (unsigned long long)in_rstart[r] + in_offset, n = in_rlen[r] / G;
          if (a >= s && a < s + n && a >= StartAdr && a <= StopAdr) { e = in_rdata[r * CF_L + (a - s) * G + k]; WITNESS("byte from a record"); }
        }
      CHECK(targ.wit_set && targ.wit_val == e, "image byte = byte of the last selected record covering that address, else the fill value");
      if (e == in_fill) WITNESS("fill byte");
    }
    /* overlap warning: exactly when two selected (clipped) records share an address */
    {
      int ov = 0;
      if (CF_R >= 2 && rec_selected(0) && rec_selected(1))
      {
        unsigned long long s0 = (unsigned long long)in_rstart[0] + in_offset, e0 = s0 + in_rlen[0] / G - 1;
        unsigned long long s1 = (unsigned long long)in_rstart[1] + in_offset, e1 = s1 + in_rlen[1] / G - 1;
        if (s0 < StartAdr) s0 = StartAdr; if (s1 < StartAdr) s1 = StartAdr;
        if (e0 > StopAdr) e0 = StopAdr; if (e1 > StopAdr) e1 = StopAdr;
        ov = (s0 <= e0) && (s1 <= e1) && (s0 <= e1) && (s1 <= e0);
      }
      CHECK((stderr_msgs > 0) == ov, "overlap warning exactly when two selected records cover a common address");
#if CF_R >= 2
      if (ov) WITNESS("overlap");
#endif
    }
  }
  WITNESS("end");
}
