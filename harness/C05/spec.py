"""C05 obligations (DESIGN.md C05)."""
BASE = dict(subst={"p2bin.c": [("#define BufferSize 4096", "#define BufferSize 16")]}, src="p2bin.c", include=["p2bin.c", "toolutils.c"], units=[], stubs=[],
            assumes=["stdio replaced by the memory-file model (input: byte array, output: witness cell)",
                     "option callbacks not executed: option statics set directly to arbitrary values of their documented domains",
                     "message catalogue, printf output cut", "chunks.c AddChunk replaced by its contract (true intersection with an earlier range)", "all selected records share one granularity", "p2bin copy buffer shrunk from 4096 to 16 bytes (chunking exercised with small chunks); image window <= 64 bytes"])
def ob(name, defs, bounds, **kw):
    d = dict(BASE); d.update(name=name, defs=defs, bounds=bounds,
                             functions=["p2bin.c:MeasureFile", "p2bin.c:OpenTarget", "p2bin.c:ProcessFile", "p2bin.c:CloseTarget",
                                        "toolutils.c:ReadRecordHeader", "toolutils.c:SkipRecord", "toolutils.c:FilterOK", "toolutils.c:Granularity"],
                             unwind=8, unwind_fn={"cf_load": 40, "cf_build": 8, "harness": 8, "ProcessFile": 6, "MeasureFile": 6, "OpenTarget": 6, "CloseTarget": 6}); d.update(kw); return d
MODES = ["ALL", "EVEN", "ODD", "BYTE0", "BYTE1", "BYTE2", "BYTE3", "WORD0", "WORD1"]
SHORTCPU = {1: "0x11", 2: "0x70", 4: "0x76"}
OBLIGATIONS = []
# quick tier: two light slices (one record, smaller window) so that the per-change command stays well below 15 minutes;
# the full 27 granularity x mode slices are the thorough tier
for g, m, cl, wm in ((1, 1, 4, 16), (4, 7, 4, 16)):
    OBLIGATIONS.append(ob("image_q_g%d_%s" % (g, MODES[m].lower()), ["CF_R=1", "CF_L=%d" % cl, "STRINGSIZE=16", "GRAN=%d" % g, "MODE=%d" % m, "SHORTCPU=%s" % SHORTCPU[g], "WINMAX=%d" % wm, "NO_OFFSET"],
                          "1 record x <= %d bytes (long and short form), granularity %d, -m %s, any start < 2^31, image window <= %d bytes (not necessarily aligned to the lane group), -S -4..4, -e, -f list <= 2, -segment, auto/explicit range, no (offset) suffix" % (cl, g, MODES[m], wm),
                          timeout=1500))
for g in (1, 2, 4):
    for m in range(9):
        OBLIGATIONS.append(ob("image_g%d_%s" % (g, MODES[m].lower()), ["CF_R=2", "CF_L=4", "STRINGSIZE=16", "GRAN=%d" % g, "MODE=%d" % m, "SHORTCPU=%s" % SHORTCPU[g]],
                              "2 records x <= 4 bytes (long and short form), granularity %d, -m %s, any start < 2^31, image window <= 64 bytes (not necessarily aligned to the lane group), -S -4..4, -e, -f list <= 2, -segment, auto/explicit range, (offset) <= 0x1000" % (g, MODES[m]),
                              timeout=3000, tier="thorough"))
OBLIGATIONS.append(dict(name="removeoffset", src="offset.c", include=["toolutils.c"], defs=["STRINGSIZE=16"], unwind=10, unwind_fn={"harness": 10},
    functions=["toolutils.c:RemoveOffset"], bounds="file arguments of 0..5 arbitrary characters, arbitrary previous content of the offset variable",
    assumes=["ConstLongInt (number parsing) cut to 'returns an arbitrary value, success'"]))
META = dict(outside=["option text parsing (ConstLongInt on strings), (offset) suffix parsing", "-s checksum (pending)", "more than 2 records / several input files", "-k"],
            assumptions=["malloc never fails"])
