/* C13: PUBLIC / GLOBAL / FORWARD argument lists -- CodePPSyms() of asmallg.c.
 * Every list entry "name[:section]" is registered with the target section named by ITS OWN
 * qualifier; an entry without qualifier means the default (global / current) target, whatever
 * the other entries of the same statement say.  Two entries, each qualified or not (symbolic).
 */
#include "vlib.h"
#include "src/asmallg.c"
#include "diag.h"

Boolean ExpandStrSymbol(char* pDest, size_t DestSize, tStrComp const* pSrc)
{ size_t i; for (i = 0; i + 1 < DestSize && pSrc->str.p_str[i]; i++) pDest[i] = pSrc->str.p_str[i]; pDest[i] = 0; return True; }
void NLS_UpString(char* s) { (void)s; }
char* as_strdup(char const* s) { char* d = (char*)malloc(8); size_t i; for (i = 0; i < 7 && s[i]; i++) d[i] = s[i]; d[i] = 0; return d; }
char* GetErrorPos(void) { return NULL; }
char* QuotPosQualify(char const* s, char Zeichen, tQualifyQuoteFnc QualifyQuoteFnc) { (void)QualifyQuoteFnc; for (; *s; s++) if (*s == Zeichen) return (char*)s; return NULL; }
/* IdentifySection cut: the handle encodes the qualifier text it is given ('' -> -1 default, 'P' -> 5, 'Q' -> 6) */
Boolean IdentifySection(tStrComp const* pName, LongInt* Erg)
{ char c = pName->str.p_str[0]; *Erg = (c == 0) ? -1 : (c == 'P') ? 5 : (c == 'Q') ? 6 : 99; return True; }

unsigned char in_q1, in_q2;
static char t1[8], t2[8];
static tStrComp argstore[3];

void harness(void)
{
  PForwardSymbol list = NULL, alt1 = NULL, alt2 = NULL, a = NULL, b = NULL, p;
  LOAD(in_q1); LOAD(in_q2);
  ASSUME(in_q1 <= 1 && in_q2 <= 1);
  strcpy(t1, in_q1 ? "a:P" : "a"); strcpy(t2, in_q2 ? "b:Q" : "b");
  ArgStr = argstore; argstore[1].str.p_str = t1; argstore[1].str.capacity = 8; argstore[2].str.p_str = t2; argstore[2].str.capacity = 8; ArgCnt = 2;
  CaseSensitive = True; diag_reset();

  CodePPSyms(&list, &alt1, &alt2);

  CHECK(diag_cnt == 0, "a well-formed list raises nothing");
  for (p = list; p; p = p->Next) { if (p->Name[0] == 'a' && !p->Name[1]) a = p; if (p->Name[0] == 'b' && !p->Name[1]) b = p; }
  CHECK(a && b, "both entries are registered under their symbol names (qualifier cut off)");
  if (a) CHECK(a->DestSection == (in_q1 ? 5 : -1), "first entry: target section from its own qualifier, default when it has none");
  if (b) CHECK(b->DestSection == (in_q2 ? 6 : -1), "second entry: target section from its own qualifier, default when it has none");
  if (in_q1 && !in_q2) WITNESS("qualified before unqualified");
  WITNESS("end");
}
