"""C13 obligations (DESIGN.md C13)."""
import importlib.util, os
_p = os.path.join(os.path.dirname(__file__), "..", "C01", "spec.py")
_s = importlib.util.spec_from_file_location("c01spec", _p); _m = importlib.util.module_from_spec(_s); _s.loader.exec_module(_m)
OBLIGATIONS = [
    dict(_m.BASE, name="equ_set_rules", src="../C01/symtab.c", defs=["K_EQUSET", "STRINGSIZE=16"],
         functions=["asmpars.c:EnterIntSymbolWithFlags", "EnterSymbol", "SymbolAdder", "LookupSymbol", "FindNode"],
         bounds="one symbol, two definitions with arbitrary values and arbitrary EQU/SET kind, then a reference"),
    dict(_m.BASE, name="section_order", src="../C01/symtab.c", defs=["K_SECTION", "STRINGSIZE=16"],
         functions=["asmpars.c:LookupSymbol", "FindNode", "FindNode_FNode", "EnterSymbol", "EnterIntSymbolWithFlags"],
         bounds="one name defined in any subset of {global, outer section, inner section} with arbitrary values, referenced from the inner section unqualified, as name[] and as name[outer]"),
    dict(_m.BASE, name="forward_lookup", src="../C01/symtab.c", defs=["K_FORWARD", "STRINGSIZE=16"],
         functions=["asmpars.c:LookupSymbol", "FindNode", "FindNode_FSpec", "FindNode_FNode", "EnterSymbol"],
         bounds="first pass, one section inside the global scope, a global symbol L; FORWARD L announced or not; reference spelled L or l; case-sensitive mode on/off"),
    dict(_m.BASE, name="nameless_tmpsyms", src="../C01/symtab.c", defs=["K_TMPSYM", "NEV=6", "STRINGSIZE=16", "FMT_OFF_NO_PRINTF"], unwind=12, unwind_fn={"harness": 12, "setup": 12, "vmemmove": 20},
         functions=["asmpars.c:ChkTmp2", "AddTmpSymLog", "InitTmpSymbols"],
         bounds="all sequences of 6 definitions/references from {-, +, / definitions; -, --, ---, +, ++, +++ references}",
         assumes=["the formatter producing the internal name is observed (prefix and number), not executed"]),
    dict(_m.BASE, name="pushv_popv", src="../C01/symtab.c", defs=["K_PUSHV", "NEV=5", "STRINGSIZE=16"], unwind=12, tier="experimental",
         functions=["asmpars.c:PushSymbol", "PopSymbol", "FindNode", "LookupSymbol", "EnterIntSymbolWithFlags"],
         bounds="all sequences of 5 statements from {PUSHV stack,sym; POPV stack,sym; SET sym := any 64-bit value} over two named stacks and two variables",
         assumes=_m.BASE["assumes"] + ["stack names one letter (A, B); the default stack name is not used"]),
    dict(name="ppsyms", src="ppsyms.c", include=["asmallg.c"], units=["asmdef.c", "strcomp.c", "dynstr.c"], stubs=["diag.c", "fmt_off.c"], defs=["STRINGSIZE=16"],
         unwind=12, functions=["asmallg.c:CodePPSyms", "asmallg.c:CodePPSyms_SearchSym", "strcomp.c:StrCompSplitRef"], timeout=900,
         bounds="PUBLIC/GLOBAL/FORWARD list of two entries, each with or without a :section qualifier",
         assumes=["IdentifySection cut to a map from qualifier text to a handle", "ExpandStrSymbol = copy; concrete one-letter names"]),
]
META = dict(outside=["$$ and .name temporary symbols (ChkTmp1/ChkTmp3)", "IdentifySection parsing of PARENTn/names", "composed .name symbols",
                     "local handles, PUSHV/POPV (kernel pushv_popv written, experimental: no verdict within 600 s at 5 events), case folding beyond one letter, trees.c"],
            assumptions=["malloc never fails"])
