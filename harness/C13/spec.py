"""C13 obligations (DESIGN.md C13)."""
import importlib.util, os
_p = os.path.join(os.path.dirname(__file__), "..", "C01", "spec.py")
_s = importlib.util.spec_from_file_location("c01spec", _p); _m = importlib.util.module_from_spec(_s); _s.loader.exec_module(_m)
OBLIGATIONS = [
    dict(_m.BASE, name="equ_set_rules", src="../C01/symtab.c", defs=["K_EQUSET", "STRINGSIZE=16"],
         functions=["asmpars.c:EnterIntSymbolWithFlags", "EnterSymbol", "SymbolAdder", "LookupSymbol", "FindNode"],
         bounds="one symbol, two definitions with arbitrary values and arbitrary EQU/SET kind, then a reference"),
]
META = dict(outside=["temporary symbols (ChkTmp1/2/3 build names with sprintf)", "IdentifySection parsing of PARENTn/names", "composed .name symbols",
                     "section resolution order, PUBLIC/GLOBAL/FORWARD, local handles, PUSHV/POPV, case folding, trees.c (pending)"],
            assumptions=["malloc never fails"])
