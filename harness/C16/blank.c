/* C16: blanks and tabs are interchangeable field separators -- FirstBlank() of asmsub.c (used by the
 * #define/#undef preprocessor and the prefix-instruction splitters of several code generators)
 * returns the first blank OR tab of a string; as_strcasecmp()/as_strncasecmp() of strutil.c compare
 * without regard to letter case.
 */
#include "vlib.h"
#include <string.h>
#include "src/asmsub.c"

#define NS 5
char in_s[NS], in_t[NS];

/* case-insensitive compare (strutil.c) is a separate unit */
extern int as_strcasecmp(char const* src1, char const* src2);

void harness(void)
{
  char s[NS + 1], t[NS + 1]; int i, first = -1; char* r;
  LOADA(in_s, NS); LOADA(in_t, NS);
  for (i = 0; i < NS; i++) { s[i] = in_s[i]; t[i] = in_t[i]; }
  s[NS] = t[NS] = 0;
#if defined(K_FIRSTBLANK)
  for (i = NS - 1; i >= 0; i--) if (s[i] == 0) first = -1;            /* reset at every terminator seen from the right */
  first = -1;
  for (i = 0; i < NS && s[i]; i++) if (first < 0 && (s[i] == ' ' || s[i] == '\t')) first = i;
  r = FirstBlank(s);
  if (first < 0) CHECK(r == NULL, "no separator: NULL");
  else { CHECK(r == s + first, "the first blank or tab, whichever comes first"); WITNESS("separator found"); }
#elif defined(K_CASECMP)
  {
    int eq = 1, done = 0;
    for (i = 0; i < NS; i++) { ASSUME((unsigned char)s[i] < 128 && (unsigned char)t[i] < 128); }
    for (i = 0; i <= NS && !done; i++)
    {
      char a = s[i], b = t[i];
      if (a >= 'a' && a <= 'z') a -= 32;
      if (b >= 'a' && b <= 'z') b -= 32;
      if (a != b) { eq = 0; done = 1; }
      else if (!a) done = 1;
    }
    CHECK((as_strcasecmp(s, t) == 0) == eq, "strings differing only in letter case compare equal, all others unequal");
    if (eq) WITNESS("equal modulo case");
  }
#endif
  WITNESS("end");
}
