/* C16-K2 / C20-K1: ReadLnCont() of strutil.c on an arbitrary file of N bytes:
 * CR before LF and a trailing ^Z are immaterial, backslash-newline continues the line, and the
 * return value is the number of physical lines consumed (what INCLUDE_Processor adds to the
 * line counter, so that diagnostics name the right line).
 */
#include "vlib.h"
#include <stdio.h>
#include "vfile.h"
#include "src/strutil.c"

#ifndef NB
#define NB 7
#endif
unsigned char in_file[NB], in_len;
static VFILE src;
static VFILE* vf_open_hook(const char* name, const char* mode) { (void)name; (void)mode; return &src; }

/* dynstr.c is real (unit) except reallocation, which must not be needed at these sizes */
int as_dynstr_realloc(as_dynstr_t* p_str, size_t new_capacity) { (void)p_str; (void)new_capacity; CHECK(0, "no reallocation of the line buffer at these sizes"); return 0; }

void harness(void)
{
  as_dynstr_t line;
  char ref[NB + 2]; unsigned rl = 0, pos = 0, reflines = 0;
  size_t got; unsigned i;
  LOADA(in_file, NB); LOAD(in_len);
  ASSUME(in_len <= NB);
  for (i = 0; i < NB; i++) ASSUME(in_file[i] != 0);          /* text files: no NUL bytes (fgets/strlen semantics) */
  src.kind = VF_READ; src.data = in_file; src.size = in_len; src.cap = NB; src.pos = 0;

  /* ---- reference reader (from the manual: logical line = physical lines joined at a trailing backslash) ---- */
  while (1)
  {
    int terminated = 0; unsigned ls = rl;                      /* start of this physical line in the joined text */
    while (pos < in_len) { unsigned char c = in_file[pos++]; if (c == '\n') { terminated = 1; break; } ref[rl++] = (char)c; }
    if (terminated && rl > ls && ref[rl - 1] == '\r') rl--;    /* CR-LF line end: a CR of THIS physical line directly before its LF */
    reflines++;
    if (rl > 0 && ref[rl - 1] == 26) rl--;                     /* trailing ^Z */
    if (rl > 0 && ref[rl - 1] == '\\') rl--; else break;       /* continuation */
    if (reflines > NB + 1) break;
  }
  ref[rl] = 0;

  as_dynstr_ini(&line, 256);
  got = ReadLnCont((FILE*)(void*)&src, &line);

  CHECK(got == reflines, "return value = number of physical lines consumed");
  CHECK(strlen(line.p_str) == rl, "logical line length independent of CR and ^Z, continuation joined");
  for (i = 0; i < NB; i++) if (i < rl) CHECK(line.p_str[i] == ref[i], "logical line text");
  CHECK(src.pos == (long)pos, "exactly the bytes of the consumed lines are read");
  if (reflines >= 2) WITNESS("continuation line");
  WITNESS("end");
}
