"""C16 obligations (DESIGN.md C16)."""
def _rl(name, nb, **kw):
    d = dict(name=name, src="readln.c", include=["strutil.c"], units=["dynstr.c"], cuts={"dynstr.c": ["as_dynstr_realloc"]}, defs=["NB=%d" % nb, "STRINGSIZE=16"],
             unwind=8, unwind_fn={"harness": 12, "ReadLnCont": 5, "vf_fgets": 8}, functions=["strutil.c:ReadLnCont"], bounds="every file of 0..%d bytes without NUL" % nb, timeout=1500, mem_gb=24,
             assumes=["stdio replaced by the memory-file model (fgets contract: up to n-1 bytes, stops after LF, NULL at EOF with nothing read)", "line buffer of 256 bytes: no reallocation at these sizes (asserted)"])
    d.update(kw); return d
OBLIGATIONS = [_rl("readlncont", 3), _rl("readlncont_4", 4, tier="thorough"),
    dict(name="firstblank", src="blank.c", include=["asmsub.c"], units=["asmdef.c"], defs=["K_FIRSTBLANK", "STRINGSIZE=16"], nobody_mode="nondet", unwind=8, unwind_fn={"harness": 8},
         functions=["asmsub.c:FirstBlank"], bounds="every string of <= 5 characters", assumes=["frame assumption for unrelated callees of asmsub.c"]),
    dict(name="casecmp", src="blank.c", include=["asmsub.c"], units=["asmdef.c", "strutil.c"], defs=["K_CASECMP", "STRINGSIZE=16"], nobody_mode="nondet", unwind=8, unwind_fn={"harness": 8},
         functions=["strutil.c:as_strcasecmp"], bounds="every pair of ASCII strings of <= 5 characters", assumes=["C locale toupper"]),
]
_OLD = [
    dict(name="readlncont_old", src="readln.c", include=["strutil.c"], units=["dynstr.c"], cuts={"dynstr.c": ["as_dynstr_realloc"]}, defs=["NB=3", "STRINGSIZE=16"], unwind=8, unwind_fn={"harness": 12, "ReadLnCont": 5, "vf_fgets": 8},
         functions=["strutil.c:ReadLnCont"], bounds="every file of 0..3 bytes without NUL", timeout=900,
         assumes=["stdio replaced by the memory-file model (fgets contract: up to n-1 bytes, stops after LF, NULL at EOF with nothing read)", "line buffer of 256 bytes: no reallocation at these sizes"]),
]
META = dict(outside=["SplitLine (field splitting, comments, colon after labels): symbolic text does not finish under symex", "letter case of mnemonics/symbols (pending)",
                     "per-target operand parsers", "INCLUDE / macro wrapping", "the golden-corpus relation (needs concrete assembler runs)"],
            assumptions=["malloc never fails"])
