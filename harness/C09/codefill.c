/* C09: address arithmetic of the Intel-style data statements (intpseudo.c): a code fill (F, L) stands for F*E + L elements,
 * E = elements per full word (1, 2 or 4: e.g. bytes in a 16-bit word, nibbles in a byte), 0 <= L < E.
 * IncCodeFill, IncCodeFillBy, SubCodeFill and MultCodeFill (the 'n DUP (...)' replication / reservation count) must be
 * exact on the element count and keep the representation normalised -- this is what makes DB/DN/DUP(?) advance the
 * address by the documented amount on word-granular segments.
 */
#include "vlib.h"
#include "src/intpseudo.c"

LongInt in_f1, in_f2; int in_l1, in_l2; unsigned char in_e; LongWord in_n;

void harness(void)
{
  static tLayoutCtx ctx; tCurrCodeFill a, b, c; long long ta, tb, E;
  LOAD(in_f1); LOAD(in_f2); LOAD(in_l1); LOAD(in_l2); LOAD(in_e); LOAD(in_n);
  ASSUME(in_e == 1 || in_e == 2 || in_e == 4);
  E = in_e; ctx.ElemsPerFullWord = in_e;
  ASSUME(in_f1 >= 0 && in_f1 <= 4096 && in_f2 >= 0 && in_f2 <= 4096 && in_l1 >= 0 && in_l1 < E && in_l2 >= 0 && in_l2 < E);
  ASSUME(in_n <= 64);                                   /* stated bound: symbolic x symbolic multiplication */
  ta = in_f1 * E + in_l1; tb = in_f2 * E + in_l2;

  a.FullWordCnt = in_f1; a.LastWordFill = in_l1;
  IncCodeFill(&a, &ctx);
  CHECK(a.FullWordCnt * E + a.LastWordFill == ta + 1 && a.LastWordFill >= 0 && a.LastWordFill < E, "IncCodeFill: one element more, normalised");

  a.FullWordCnt = in_f1; a.LastWordFill = in_l1; b.FullWordCnt = in_f2; b.LastWordFill = in_l2;
  IncCodeFillBy(&a, &b, &ctx);
  CHECK(a.FullWordCnt * E + a.LastWordFill == ta + tb && a.LastWordFill >= 0 && a.LastWordFill < E, "IncCodeFillBy: sum of the element counts, normalised");

  if (ta >= tb)
  {
    a.FullWordCnt = in_f1; a.LastWordFill = in_l1;
    SubCodeFill(&c, &a, &b, &ctx);
    CHECK(c.FullWordCnt * E + c.LastWordFill == ta - tb && c.LastWordFill >= 0 && c.LastWordFill < E, "SubCodeFill: difference of the element counts, normalised");
  }

  b.FullWordCnt = in_f2; b.LastWordFill = in_l2;
  MultCodeFill(&b, in_n, &ctx);
  CHECK(b.FullWordCnt * E + b.LastWordFill == tb * (long long)in_n, "MultCodeFill: n DUP (...) holds n times the elements");
  CHECK(b.LastWordFill >= 0 && b.LastWordFill < E, "MultCodeFill: result normalised (partial word below one full word)");
  if (in_e > 1 && in_l2 * (long long)in_n >= 2 * E) WITNESS("replication carries more than one full word");
  WITNESS("end");
}
