"""C09 obligations (see DESIGN.md C09)."""
def ieee(n, **kw):
    d = dict(name="ieee%d" % n, src="ieee.c", defs=["IEEE%d" % n], include=["ieeefloat.c"], units=["as_endian.c"],
             functions=["ieeefloat.c:Double_2_ieee%d" % n], bounds="all 2^64 double bit patterns x both byte orders")
    d.update(kw)
    return d

OBLIGATIONS = [ieee(2, unwindset=["Double_2_ieee2.0:31"]), ieee(4), ieee(8), ieee(10, unwindset=["Double_2_ieee10.2:54"])]
OBLIGATIONS.append(dict(name="codefill", src="codefill.c", include=["intpseudo.c"], units=["asmdef.c"], stubs=["diag.c", "fmt_off.c"], defs=["STRINGSIZE=16"], nobody_mode="nondet", unwind=6, timeout=600,
    functions=["intpseudo.c:IncCodeFill", "intpseudo.c:IncCodeFillBy", "intpseudo.c:SubCodeFill", "intpseudo.c:MultCodeFill"],
    bounds="fills of up to 4096 full words, 1/2/4 elements per word, replication count <= 64",
    assumes=["only the four arithmetic helpers are executed; the argument parser of DB/DW/.. and the DUP evaluator that call them are outside"]))
META = dict(outside=["argument-list syntax (DUP, [n], ?, strings, CHARSET) beyond the fill arithmetic of codefill", "decimal float, VAX/IBM/TI float formats"],
            assumptions=["CBMC IEEE semantics of the (float) cast = round-to-nearest-even"])
