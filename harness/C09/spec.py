"""C09 obligations (see DESIGN.md C09)."""
def ieee(n, **kw):
    d = dict(name="ieee%d" % n, src="ieee.c", defs=["IEEE%d" % n], include=["ieeefloat.c"], units=["as_endian.c"],
             functions=["ieeefloat.c:Double_2_ieee%d" % n], bounds="all 2^64 double bit patterns x both byte orders")
    d.update(kw)
    return d

OBLIGATIONS = [ieee(2, unwindset=["Double_2_ieee2.0:31"]), ieee(4), ieee(8), ieee(10, unwindset=["Double_2_ieee10.2:54"])]
META = dict(outside=["argument-list syntax (DUP, [n], ?, strings, CHARSET)", "decimal float, VAX/IBM/TI float formats"],
            assumptions=["CBMC IEEE semantics of the (float) cast = round-to-nearest-even"])
