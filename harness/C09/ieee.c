/* C09-K1: IEEE encoders of ieeefloat.c against bit-level statements of
 * IEEE-754 binary16/32/64 (round-to-nearest-even) and the x87 80-bit layout.
 * Input: every double (all 2^64 bit patterns), both byte orders.
 */
#include "vlib.h"
#include "src/ieeefloat.c"
#include <stdint.h>

double in_d;
unsigned char in_big;

static uint64_t dbits(double d) { uint64_t b; memcpy(&b, &d, 8); return b; }

/* reference: double -> binary16, RNE: the compiler's / CBMC's own _Float16 conversion.
   returns 0 when the rounded value does not fit (becomes infinite) */
static int ref_half(uint64_t b, unsigned* out)
{
  double d; _Float16 h; uint16_t r;
  memcpy(&d, &b, 8);
  h = (_Float16)d;
  memcpy(&r, &h, 2);
  *out = r;
  return (r & 0x7fff) < 0x7c00;
}

void harness(void)
{
  Byte buf[12];
  uint64_t b;
  int k;
  LOAD(in_d); LOAD(in_big);
  ASSUME(in_big <= 1);
  b = dbits(in_d);
  /* NaNs: only quiet NaNs (the only kind x86 arithmetic produces); the payload of a
     signalling NaN is outside the claim */
  ASSUME(!(((b >> 52) & 0x7ff) == 0x7ff && (b & ((1ull << 52) - 1)) != 0 && !((b >> 51) & 1)));
  for (k = 0; k < 12; k++) buf[k] = 0xAA;
  /* known finding ieee10_zero (see known_findings.jsonl): +-0.0 in the 80-bit format */
#ifdef KF_EXCLUDE_ieee10_zero
  ASSUME((b << 1) != 0);
#endif
#ifdef KF_ONLY_ieee10_zero
  ASSUME((b << 1) == 0);
#endif

#if defined(IEEE2)
  {
    unsigned ref = 0, got; int fits = ref_half(b, &ref);
    Boolean ok;
#ifdef KF_EXCLUDE_ieee2_subnormal
#endif
    ok = Double_2_ieee2(in_d, buf, in_big);
    got = in_big ? ((unsigned)buf[0] << 8 | buf[1]) : ((unsigned)buf[1] << 8 | buf[0]);
    if (((b >> 52) & 0x7ff) == 0x7ff)
    {
      CHECK(ok, "half: Inf/NaN accepted");
      CHECK((got & 0x8000) == ((unsigned)(b >> 48) & 0x8000) && (got & 0x7c00) == 0x7c00, "half: Inf/NaN sign and exponent");
      CHECK(((got & 0x3ff) != 0) == ((b & ((1ull << 52) - 1)) != 0), "half: NaN stays NaN, Inf stays Inf");
    }
    else
    {
      CHECK(!!ok == !!fits, "half: rejected exactly when the rounded value does not fit");
      if (ok && fits) CHECK(got == ref, "half: round-to-nearest-even encoding");
    }
    CHECK(buf[2] == 0xAA, "half: writes 2 bytes only");
  }
#elif defined(IEEE4)
  {
    float f = (float)in_d; uint32_t r, got;
    memcpy(&r, &f, 4);
    Double_2_ieee4(in_d, buf, in_big);
    got = in_big ? ((uint32_t)buf[0] << 24 | (uint32_t)buf[1] << 16 | (uint32_t)buf[2] << 8 | buf[3])
                 : ((uint32_t)buf[3] << 24 | (uint32_t)buf[2] << 16 | (uint32_t)buf[1] << 8 | buf[0]);
    if (in_d == in_d) CHECK(got == r, "single: round-to-nearest-even encoding in the requested byte order");
    else CHECK((got & 0x7f800000u) == 0x7f800000u && (got & 0x7fffffu), "single: NaN stays NaN");
    CHECK(buf[4] == 0xAA, "single: writes 4 bytes only");
  }
#elif defined(IEEE8)
  {
    uint64_t got = 0;
    Double_2_ieee8(in_d, buf, in_big);
    for (k = 0; k < 8; k++) got |= (uint64_t)buf[in_big ? 7 - k : k] << (8 * k);
    CHECK(got == b, "double: identical bits in the requested byte order");
    CHECK(buf[8] == 0xAA, "double: writes 8 bytes only");
  }
#elif defined(IEEE10)
  {
    unsigned sign = (unsigned)(b >> 63), e = (unsigned)((b >> 52) & 0x7ff), rexp, gexp;
    uint64_t m = b & ((1ull << 52) - 1), rman, gman = 0;
    int i, p = 0;
    if (e == 0x7ff) { rexp = 0x7fff; rman = (1ull << 63) | (m << 11); }
    else if (e) { rexp = e - 1023 + 16383; rman = (1ull << 63) | (m << 11); }
    else if (!m) { rexp = 0; rman = 0; }
    else
    {
      for (i = 0; i < 52; i++) if ((m >> i) & 1) p = i;
      rman = m << (63 - p);                       /* normalised: explicit integer bit set */
      rexp = (unsigned)(p - 52 - 1022 + 16383);
    }
    Double_2_ieee10(in_d, buf, in_big);
    for (k = 0; k < 8; k++) gman |= (uint64_t)buf[in_big ? 9 - k : k] << (8 * k);
    gexp = (unsigned)buf[in_big ? 1 : 8] | ((unsigned)buf[in_big ? 0 : 9] << 8);
    CHECK((gexp >> 15) == sign, "extended: sign");
    CHECK((gexp & 0x7fff) == rexp, "extended: 15-bit exponent (re-biased; 0 for zero; normalised for sub-normal doubles)");
    CHECK(gman == rman, "extended: 64-bit significand with explicit integer bit");
    CHECK(buf[10] == 0xAA, "extended: writes 10 bytes only");
  }
#endif
  WITNESS("end");
}
