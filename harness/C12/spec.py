"""C12 obligations (DESIGN.md C12)."""
BASE = dict(src="ifs.c", include=["asmif.c"], units=["tempresult.c", "nonzstring.c", "asmdef.c"], stubs=["diag.c", "fmt_off.c"],
            functions=["asmif.c:CodeIFs", "CodeIF", "CodeIFDEF", "CodeIFUSED", "CodeIFEXIST", "CodeIFB", "CodeELSEIF", "CodeENDIF",
                       "CodeSWITCH", "CodeCASE", "CodeELSECASE", "CodeENDCASE", "PushIF", "SaveIFs", "AsmIFInit", "ifsave_create", "ifsave_free"],
            assumes=["expression evaluator, symbol/macro/function/file lookups replaced by stubs returning arbitrary values",
                     "listing decoration (as_snprintf, ListLine) stubbed", "integer selectors only"])
def ob(name, k, **kw):
    d = dict(BASE); d.update(unwind=20, name=name, defs=["K=%d" % k, "STRINGSIZE=16"], bounds="all sequences of %d statements from 17 kinds, arbitrary 64-bit conditions/selectors, 0..3 arguments" % k)
    d.update(kw); return d
OBLIGATIONS = [
    ob("ifs_k4", 4, timeout=900),
    ob("ifs_k6", 6, tier="thorough", timeout=3000, mem_gb=24),
]
META = dict(outside=["that Produce_Code skips non-conditional lines while IfAsm is false (one if, read)", "nesting deeper than K",
                     "float and string selectors (thorough slices pending)", "SELECT spelling when SWITCH is a machine instruction"],
            assumptions=["malloc never fails"])
