"""C12 obligations (DESIGN.md C12)."""
BASE = dict(src="ifs.c", include=["asmif.c"], units=["tempresult.c", "nonzstring.c", "asmdef.c"], stubs=["diag.c", "fmt_off.c"],
            functions=["asmif.c:CodeIFs", "CodeIF", "CodeIFDEF", "CodeIFUSED", "CodeIFEXIST", "CodeIFB", "CodeELSEIF", "CodeENDIF",
                       "CodeSWITCH", "CodeCASE", "CodeELSECASE", "CodeENDCASE", "PushIF", "SaveIFs", "AsmIFInit", "ifsave_create", "ifsave_free"],
            assumes=["expression evaluator, symbol/macro/function/file lookups replaced by stubs returning arbitrary values",
                     "listing decoration (as_snprintf, ListLine) stubbed", "integer selectors only, except case_types_*"])
def ob(name, k, **kw):
    d = dict(BASE); d.update(unwind=20, name=name, defs=["K=%d" % k, "STRINGSIZE=16"], bounds="all sequences of %d statements from 17 kinds, arbitrary 64-bit conditions/selectors, 0..3 arguments" % k)
    d.update(kw); return d
OBLIGATIONS = [
    ob("ifs_k4", 4, timeout=900),
    ob("ifs_k6", 6, tier="thorough", timeout=3000, mem_gb=24),
]
TN = "ifs"
for st in range(3):
    for a1 in range(3):
        for a2 in range(3):
            if st == a1 == a2 == 0: continue
            OBLIGATIONS.append(ob("case_types_%s_%s%s" % (TN[st], TN[a1], TN[a2]), 3, timeout=900, unwind=24, mem_gb=16,
                tier="quick" if (st, a1, a2) in ((0, 1, 0), (1, 0, 1), (2, 0, 2), (0, 2, 0), (2, 2, 2)) else "thorough",
                units=BASE["units"] + ["strutil.c"], cuts={"strutil.c": ["as_snprintf", "as_snprcatf", "as_sdprintf", "as_sdprcatf", "strmaxcpy", "strmaxcat", "strmaxprep", "strcpy"]},
                defs=["K=3", "STRINGSIZE=16", "TYPES", "SELTY=%d" % st, "A1TY=%d" % a1, "A2TY=%d" % a2],
                bounds="SWITCH with %s selector followed by 2 statements from CASE/ELSECASE/ENDCASE/other, CASE lists of 0..3 entries typed (%s,%s,%s); integers any 64-bit value, floats 4 values, strings 4 one-character values"
                       % (TN[st], TN[a1], TN[a2], TN[a1])))
META = dict(outside=["that Produce_Code skips non-conditional lines while IfAsm is false (one if, read)", "nesting deeper than K",
                     "float/string selectors beyond the four sample values each of the case_types_* obligations", "SELECT spelling when SWITCH is a machine instruction"],
            assumptions=["malloc never fails"])
