/* C12: asmif.c (complete) against a reference interpreter of conditional assembly,
 * written from doc/pseudo-instructions.md "Conditional Assembly".
 * All sequences of K statements, kinds/conditions/argument counts symbolic.
 */
#include "vlib.h"
#include "src/asmif.c"
#include "diag.h"

#ifndef K
#define K 5
#endif

enum { S_IF, S_IFDEF, S_IFNDEF, S_IFUSED, S_IFNUSED, S_IFEXIST, S_IFNEXIST, S_IFB, S_IFNB,
       S_ELSEIF, S_ELSE, S_ENDIF, S_SWITCH, S_CASE, S_ELSECASE, S_ENDCASE, S_CODE, S_NKINDS };

unsigned char in_kind[K], in_argc[K], in_ok[K], in_def[K], in_blank[K];
LargeInt in_c1[K], in_c2[K];
#ifdef TYPES
/* typed SWITCH/CASE operands, 0 integer, 1 float, 2 string.  Statement 0 is the SWITCH with a selector of type SELTY; the
 * first (and third) entry of every CASE list has type A1TY, the second A2TY.  Types are compile-time constants per obligation
 * (a symbolic type tag makes CBMC explore freeing the union's bytes as a string pointer: solver out of memory, measured).
 * Float and string operands take one of four values selected by the low two bits of the operand value. */
static const double fl_tab[4] = { 0.0, 1.0, 2.5, -3.0 };
#define TY1(i) ((i) == 0 ? SELTY : A1TY)
#define TY2(i) A2TY
#else
#define TY1(i) 0
#define TY2(i) 0
#endif

/* ---------------- environment stubs (contracts) ---------------- */
static int cur;                                  /* statement being executed */
static tStrComp argstore[5];
static char s_empty[2] = "", s_x[2] = "x";

LargeInt EvalStrIntExpressionWithFlags(const struct sStrComp* pExpr, IntType Type, Boolean* pResult, tSymbolFlags* pFlags)
{ (void)pExpr; (void)Type; *pResult = in_ok[cur] & 1; *pFlags = eSymbolFlag_None; return (LongInt)in_c1[cur]; }

void EvalStrExpression(const struct sStrComp* pExpr, TempResult* pErg)
{
  /* arbitrary integer value per argument; 'evaluation failed' modelled by in_ok */
  as_tempres_set_none(pErg);                       /* as the real evaluator does first (releases a string the buffer held) */
  if (!(in_ok[cur] & 1)) return;
#ifdef TYPES
  {
    int second = (pExpr == &ArgStr[2]), ty = second ? TY2(cur) : TY1(cur);
    LargeInt v = second ? in_c2[cur] : in_c1[cur];
    if (ty == 1) as_tempres_set_float(pErg, fl_tab[v & 3]);
    else if (ty == 2) { char b1[2]; b1[0] = (char)('a' + (v & 3)); b1[1] = 0; as_tempres_set_str_raw(pErg, b1, 1); }   /* one-character strings "a".."d" */
    else as_tempres_set_int(pErg, v);
  }
#else
  as_tempres_set_int(pErg, (pExpr == &ArgStr[2]) ? in_c2[cur] : in_c1[cur]);
#endif
  pErg->Flags = eSymbolFlag_None;
}
Boolean IsSymbolDefined(const struct sStrComp* pName) { (void)pName; return in_def[cur] & 1; }
PFunction FindFunction(char const* Name) { (void)Name; return (in_def[cur] & 2) ? (PFunction)&cur : NULL; }
Boolean FoundMacroByName(PMacroRec* Erg, StringPtr Name) { (void)Erg; (void)Name; return !!(in_def[cur] & 4); }
Boolean IsSymbolUsed(const struct sStrComp* pName) { (void)pName; return in_def[cur] & 1; }
int FSearch(char* pDest, size_t DestSize, char const* FileToSearch, char const* pCurrFileName, char const* SearchPath)
{ (void)pDest; (void)DestSize; (void)FileToSearch; (void)pCurrFileName; (void)SearchPath; return (in_def[cur] & 1) ? 0 : 2; }
void AddSuffix(char* s, char const* Suff) { (void)s; (void)Suff; }
void SetListLineVal(TempResult* t) { (void)t; }

/* ---------------- reference interpreter ---------------- */
typedef struct { int is_switch, state, outer, found, selty; LargeInt sel; } mframe;   /* state: 0 open, 1 after ELSE/ELSECASE */
static mframe ms[K + 1];
static int mdepth, mactive;

static const char* const mnemo[S_NKINDS] = { "IF", "IFDEF", "IFNDEF", "IFUSED", "IFNUSED", "IFEXIST", "IFNEXIST", "IFB", "IFNB",
                                              "ELSEIF", "ELSE", "ENDIF", "SWITCH", "CASE", "ELSECASE", "ENDCASE", "NOP" };
static char opbuf[S_NKINDS][12];

/* returns 1 = well-formed (model updated), 0 = malformed (an error must be reported) */
static int model_step(int i)
{
  int k = in_kind[i], argc = in_argc[i], cond, j, blank;
  mframe* t = mdepth ? &ms[mdepth - 1] : 0;
  LargeInt c1 = (in_ok[i] & 1) ? in_c1[i] : 1, c2 = (in_ok[i] & 1) ? in_c2[i] : 1;   /* failed evaluation counts as 1 */
  int t1 = (in_ok[i] & 1) ? TY1(i) : 0, t2 = (in_ok[i] & 1) ? TY2(i) : 0;
  if (t1) c1 &= 3;
  if (t2) c2 &= 3;
  switch (k)
  {
    case S_IF: case S_IFDEF: case S_IFNDEF: case S_IFUSED: case S_IFNUSED: case S_IFEXIST: case S_IFNEXIST:
      if (mactive && argc != 1) return 0;
      switch (k)
      {
        case S_IF: cond = ((LongInt)c1 != 0); break;
        case S_IFDEF: cond = (in_def[i] & 7) != 0; break;
        case S_IFNDEF: cond = (in_def[i] & 7) == 0; break;
        case S_IFUSED: case S_IFEXIST: cond = (in_def[i] & 1) != 0; break;
        default: cond = (in_def[i] & 1) == 0; break;
      }
      goto push_if;
    case S_IFB: case S_IFNB:
      blank = 1;
      for (j = 0; j < 3; j++) if (j < argc && !((in_blank[i] >> j) & 1)) blank = 0;
      cond = (k == S_IFB) ? blank : !blank;
    push_if:
      ms[mdepth].is_switch = 0; ms[mdepth].state = 0; ms[mdepth].outer = mactive;
      ms[mdepth].found = mactive ? cond : 1;
      mactive = mactive && cond;
      mdepth++;
      return 1;
    case S_ELSEIF: case S_ELSE:
      if (!t || t->is_switch || t->state != 0) return 0;     /* no open IF, or ELSE already seen */
      if (argc > 1) return 0;
      if (argc == 0) { mactive = t->outer && !t->found; t->state = 1; return 1; }
      cond = ((LongInt)c1 != 0);
      mactive = t->outer && !t->found && cond;
      if (t->outer && !t->found && cond) t->found = 1;
      return 1;
    case S_ENDIF:
      if (argc != 0) return 0;
      if (!t || t->is_switch) return 0;
      mactive = t->outer; mdepth--;
      return 1;
    case S_SWITCH:
      if (mactive && argc != 1) return 0;
      ms[mdepth].is_switch = 1; ms[mdepth].state = 0; ms[mdepth].outer = mactive; ms[mdepth].found = 0; ms[mdepth].sel = c1; ms[mdepth].selty = t1;
      if (!(mactive && argc == 1)) { ms[mdepth].sel = 1; ms[mdepth].selty = 0; }
      mdepth++;
      return 1;
    case S_CASE:
      if (!t) return 0;
      if (argc < 1) return 0;
      if (!t->is_switch || t->state != 0) return 0;          /* CASE outside SWITCH or after ELSECASE */
      cond = (t1 == t->selty && c1 == t->sel) || (argc >= 2 && t2 == t->selty && c2 == t->sel);   /* any list entry of the selector's type and value */
      mactive = t->outer && !t->found && cond;
      if (t->outer && !t->found && cond) t->found = 1;
      return 1;
    case S_ELSECASE:
      if (argc != 0) return 0;
      if (!t || !t->is_switch || t->state != 0) return 0;
      mactive = t->outer && !t->found; t->found = 1; t->state = 1;
      return 1;
    case S_ENDCASE:
      if (argc != 0) return 0;
      if (!t || !t->is_switch) return 0;
      mactive = t->outer; mdepth--;
      return 1;
    default:
      return 1;
  }
}

void harness(void)
{
  int i, j;
  LOADA(in_kind, K); LOADA(in_argc, K); LOADA(in_ok, K); LOADA(in_def, K); LOADA(in_blank, K);
  LOADA(in_c1, K); LOADA(in_c2, K);

  for (i = 0; i < S_NKINDS; i++) strcpy(opbuf[i], mnemo[i]);
  ArgStr = argstore;
  ListLine = (StringPtr)malloc(STRINGSIZE);
  IncludeList = (StringPtr)malloc(4); IncludeList[0] = 0;
  CurrFileName = s_x;
  SwitchIsOccupied = False;
  ListOn = 0;
  FirstIfSave = NULL;
  AsmIFInit();
  mdepth = 0; mactive = 1;
  CHECK(IfAsm, "assembly starts active");

  for (i = 0; i < K; i++)
  {
    int wf, before;
    Boolean handled;
    ASSUME(in_kind[i] < S_NKINDS && in_argc[i] <= 3);
#ifdef TYPES
    ASSUME(in_ok[i] & 1);                   /* failed evaluation: covered by the integer obligations */
    if (i == 0) ASSUME(in_kind[i] == S_SWITCH && in_argc[i] == 1);
    else ASSUME(in_kind[i] > S_SWITCH);
#endif
#ifdef NO_IFEXIST
    ASSUME(in_kind[i] != S_IFEXIST && in_kind[i] != S_IFNEXIST);
#endif
    ASSUME(in_kind[i] == S_CASE || in_kind[i] == S_IFB || in_kind[i] == S_IFNB || in_argc[i] <= 2);
    cur = i;
    ArgCnt = in_argc[i];
    for (j = 1; j <= 3; j++)
      argstore[j].str.p_str = ((in_blank[i] >> (j - 1)) & 1) ? s_empty : s_x;
    diag_reset();
    before = diag_cnt;
    wf = model_step(i);
    /* dispatch with a literal mnemonic per case so that the strcmp chains fold */
#define RUN(kind) case kind: OpPart.str.p_str = opbuf[kind]; handled = CodeIFs(); break;
    handled = False;
    switch (in_kind[i])
    {
      RUN(S_IF) RUN(S_IFDEF) RUN(S_IFNDEF) RUN(S_IFUSED) RUN(S_IFNUSED) RUN(S_IFEXIST) RUN(S_IFNEXIST) RUN(S_IFB) RUN(S_IFNB)
      RUN(S_ELSEIF) RUN(S_ELSE) RUN(S_ENDIF) RUN(S_SWITCH) RUN(S_CASE) RUN(S_ELSECASE) RUN(S_ENDCASE) RUN(S_CODE)
    }
    if (in_kind[i] == S_CODE)
    {
      CHECK(!handled, "non-conditional statement is not consumed by CodeIFs");
      CHECK(diag_cnt == 0, "non-conditional statement raises nothing here");
    }
    else
      CHECK(handled, "conditional statement is recognised");
    if (!wf)
    {
      CHECK(diag_errs > before, "misplaced/unbalanced conditional statement is reported as an error");
      WITNESS("malformed statement reached");
      return;
    }
    CHECK(diag_errs == 0, "well-formed conditional statement raises no error");
    CHECK(!!IfAsm == !!mactive, "exactly the documented branch is active");
    CHECK(SaveIFs() == mdepth, "construct stack depth equals nesting depth");
    CHECK((FirstIfSave == NULL) == (mdepth == 0), "construct stack empty exactly when no construct is open");
  }
#ifdef TYPES
  int c_differs = (TY1(1) != TY1(0)) || ((TY1(1) ? (in_c1[1] & 3) : in_c1[1]) != (TY1(0) ? (in_c1[0] & 3) : in_c1[0]));
#endif
  if (mdepth == 0) WITNESS("balanced program end");
#ifndef TYPES
  if (mdepth >= 3) WITNESS("nesting depth 3");
#elif A2TY == SELTY
  if (K >= 2 && in_kind[1] == S_CASE && in_argc[1] == 2 && TY2(1) == TY1(0) && c_differs && mactive) WITNESS("CASE list matched on its second entry only");
#endif
  WITNESS("end");
}
