/* C19-K1 (+ C17-K4): MakeList() of asmlist.c -- the address and the code words a listing line
 * shows are the address and the words of the current line's code; MakeList leaves the code
 * buffers, CodeLen and the counters alone.  as_sdprintf/as_sdprcatf are token recorders.
 */
#include "vlib.h"
#include <stdarg.h>
#include "src/asmlist.c"
#include "diag.h"

/* ---- token recorder for the listing formatter ---- */
#define MAXTOK 24
static LargeWord tok_addr[MAXTOK], tok_word[MAXTOK]; static int tok_wordlen[MAXTOK], n_addr, n_word, n_lines, unknown_fmt;
static int has(const char* f, const char* sub)
{ int i, j; for (i = 0; f[i]; i++) { for (j = 0; sub[j] && f[i + j] == sub[j]; j++) ; if (!sub[j]) return 1; } return 0; }
#pragma CPROVER check push
#pragma CPROVER check disable "pointer"
#pragma CPROVER check disable "bounds"
static int rec_fmt(const char* f, va_list ap)
{
  if (has(f, "%8.*"))
  {
    /* "[%*s]%8.*llx %c ": (pad, "")?, radix, ListPC, marker */
    if (f[0] == '%' && f[1] == '*') { (void)va_arg(ap, int); (void)va_arg(ap, char*); }
    (void)va_arg(ap, int);
    if (n_addr < MAXTOK) tok_addr[n_addr] = va_arg(ap, LargeWord);
    n_addr++;
  }
  else if (has(f, "%0*.*"))
  {
    /* SystemListLen is a 16-bit Word: CBMC's variadic model does not apply the default argument
       promotion (upper half arbitrary), so only the low 16 bits are taken */
    int l = va_arg(ap, int) & 0xffff; (void)va_arg(ap, int);
    if (n_word < MAXTOK) { tok_word[n_word] = va_arg(ap, LargeWord); tok_wordlen[n_word] = l; }
    n_word++;
  }
  else if (!strcmp(f, "   ") || has(f, "(%s)") || has(f, "%5s/") || !strcmp(f, "%*s") || !strcmp(f, "%*s%s") || has(f, "%s %s%s")) { }
  else unknown_fmt++;
  return 0;
}
#pragma CPROVER check pop
int as_sdprintf(struct as_dynstr* d, const char* f, ...) { va_list ap; (void)d; va_start(ap, f); rec_fmt(f, ap); va_end(ap); return 0; }
int as_sdprcatf(struct as_dynstr* d, const char* f, ...) { va_list ap; (void)d; va_start(ap, f); rec_fmt(f, ap); va_end(ap); return 0; }
int as_snprintf(char* pDest, size_t DestSize, const char* pFormat, ...) { (void)pFormat; if (DestSize) pDest[0] = 0; return 0; }
void WrLstLine(char const* Line) { (void)Line; n_lines++; }
char const* Blanks(int n) { (void)n; return ""; }
int SysString(char* pDest, size_t DestSize, LargeWord i, int System, int Stellen, Boolean ForceLeadZero, char StartCharacter, char SplitCharacter)
{ (void)DestSize; (void)i; (void)System; (void)Stellen; (void)ForceLeadZero; (void)StartCharacter; (void)SplitCharacter; pDest[0] = 0; return 0; }
Boolean IFListMask(void) { return False; }
LargeWord EProgCounter(void) { return PCs[ActPC] + Phases[ActPC]; }
Word Granularity(void) { return Grans[ActPC]; }
static int drehe_calls;
void DreheCodes(void) { drehe_calls++; }

/* ---- inputs ---- */
LargeWord in_pc, in_phase;
unsigned in_codelen;
unsigned char in_gran, in_listgran, in_dontprint, in_turn, in_code[16];
static LargeWord pcs_store[SegCountPlusStruct], phases_store[SegCountPlusStruct];
static char ll[STRINGSIZE], src[4] = "s";

void harness(void)
{
  unsigned eff, i, k, idx; unsigned char before[16];
  LOAD(in_pc); LOAD(in_phase); LOAD(in_codelen); LOAD(in_gran); LOAD(in_listgran); LOAD(in_dontprint); LOAD(in_turn); LOADA(in_code, 16);
  ASSUME(in_gran == 1 || in_gran == 2 || in_gran == 4);
  ASSUME(in_listgran == in_gran || in_listgran == 1);            /* listing word = address unit, or bytes */
  ASSUME(in_dontprint <= 1 && in_turn <= 1);
  eff = in_codelen * in_gran;
  ASSUME(in_codelen >= 1 && in_codelen <= 8 && eff <= 8);
  ASSUME(in_pc < 0xffffff00ull && in_phase < 0x1000);

  PCs = pcs_store; Phases = phases_store; ActPC = SegCode; Grans[ActPC] = in_gran; ActListGran = in_listgran;
  CodeLen = in_codelen; PCs[ActPC] = in_pc + in_codelen; Phases[ActPC] = in_phase;    /* MakeList runs after WriteCode advanced the counter */
  BAsmCode = in_code; WAsmCode = (Word*)in_code; DAsmCode = (LongWord*)in_code;
  for (i = 0; i < 16; i++) before[i] = in_code[i];
  ListLine = ll; ll[0] = 0; ListToNull = False; ListMask = 1 | ListMask_LineNums; DoLst = eLstMacroExpAll; IfAsm = True; WasIF = WasMACRO = False;
  IncDepth = 0; Retracted = False; DontPrint = in_dontprint; TurnWords = in_turn; ListRadixBase = 16;
  SystemListLen8 = 2; SystemListLen16 = 4; SystemListLen32 = 8;

  MakeList(src);

  CHECK(unknown_fmt == 0, "every listing format is modelled");
  CHECK(n_lines >= 1 && n_addr == n_lines, "one address per listing line");
  CHECK(tok_addr[0] == in_pc + in_phase, "the listing line shows the address at which the line's code starts (load address + phase)");
  /* frame: the code and the counters are untouched by listing generation */
  for (i = 0; i < 16; i++) CHECK(in_code[i] == before[i], "MakeList leaves the code buffer alone");
  CHECK(CodeLen == (LongInt)in_codelen && PCs[ActPC] == in_pc + in_codelen && Phases[ActPC] == in_phase, "MakeList leaves CodeLen and the counters alone");
  if (!in_dontprint)
  {
    /* the word tokens, concatenated in their own width, are the code bytes in order */
    idx = 0;
    for (k = 0; k < MAXTOK; k++)
      if ((int)k < n_word)
      {
        unsigned w = (unsigned)tok_wordlen[k] / 2, b; LargeWord v = 0;
        CHECK(w == 1 || w == 2 || w == 4, "word width is 1, 2 or 4 bytes");
        for (b = 0; b < 4; b++) if (b < w && idx + b < 16) v |= (LargeWord)before[idx + b] << (8 * b);   /* host (little endian) word */
        CHECK(idx + w <= eff, "no more words listed than the line emitted");
        CHECK(tok_word[k] == v, "each listed word is the corresponding word of the emitted code");
        idx += w;
      }
    CHECK(idx == eff, "every emitted byte appears in the listing exactly once");
    if (n_lines > 1) { CHECK(tok_addr[1] > tok_addr[0], "continuation lines advance the address"); WITNESS("continuation line"); }
    WITNESS("code listed");
  }
  else CHECK(n_word == 0, "a reservation lists no code words");
  WITNESS("end");
}
