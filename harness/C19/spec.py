"""C19 obligations (DESIGN.md C19)."""
OBLIGATIONS = [
    dict(name="makelist", src="list.c", include=["asmlist.c"], units=["asmdef.c"], stubs=["diag.c"], defs=["STRINGSIZE=16"], unwind=24, object_bits=14, unwind_fn={"harness": 30},
         functions=["asmlist.c:MakeList"], bounds="code of 1..8 bytes, granularity 1/2/4, listing word = unit or byte, any PC < 2^32, phase < 4096, emit/reserve",
         assumes=["listing formatter replaced by a token recorder keyed on the format strings of MakeList", "list radix 16, listing on, no include nesting", "little-endian host"]),
    dict(name="perline_reset", src="perline.c", include=["as.c"], units=["asmdef.c"], stubs=["fmt_off.c"], defs=["STRINGSIZE=16", "FMT_OFF_NO_PRINTF"], nobody_mode="nondet",
         cuts={"as.c": ["InputEnd", "GetNextLine", "SplitLine", "Produce_Code", "ExpandINCLUDE_Core"]}, unwind=8, mem_gb=20, timeout=900,
         functions=["as.c:ProcessFile"], bounds="3 source lines, each statement leaving arbitrary annotation / code length / reservation flag behind",
         assumes=["line reader, splitter, statement execution and MakeList replaced by stubs/recorders (MakeList clears nothing, as under a suppressed listing)"]),
]
# line numbers are what the listing and the MAP/NoICE/Atmel line records key on: the INCLUDE line-counter kernel of C20 is part of C19 too
import importlib.util, os
_p = os.path.join(os.path.dirname(__file__), "..", "C20", "spec.py")
_sp = importlib.util.spec_from_file_location("specC20", _p); _m20 = importlib.util.module_from_spec(_sp); _sp.loader.exec_module(_m20)
for _o in _m20.OBLIGATIONS:
    if _o["name"] == "include_linecounter":
        OBLIGATIONS.append(dict(_o, src="../C20/" + _o["src"]))
META = dict(outside=["symbol table of the listing / MAP / share file (tree walk + number formatting)", "MAP line entries, NoICE/Atmel formats (pending)", "list radix other than 16"],
            assumptions=["malloc never fails"])
