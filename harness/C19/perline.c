/* C19: per-line result state -- the main loop of ProcessFile() (as.c) clears the per-line result fields
 * (listing annotation ListLine, CodeLen, DontPrint) before every source line, so that what MakeList()
 * shows for a line is what THIS line produced, even when the previous line's annotation was never
 * printed (listing switched off / suppressed).  The statements are stubs that may leave arbitrary
 * values behind; MakeList is a recorder that, like the real one under a suppressed listing, clears nothing.
 */
#include "vlib.h"
#include <stdio.h>
#include <ctype.h>
/* glibc implements isspace() through a table behind __ctype_b_loc(), which CBMC has no body for */
#undef isspace
#define isspace(c) ((c) == ' ' || ((c) >= 9 && (c) <= 13))
#define main asl_main
#include "src/as.c"
#undef main

#define NLINES 3
unsigned char in_touch_ll[NLINES], in_touch_cl[NLINES], in_dont[NLINES];
LongInt in_cl[NLINES];
static int line_no, lists;
static char seen_ll[NLINES]; static LongInt seen_cl[NLINES]; static Boolean seen_dp[NLINES];

/* ---- cut statics of as.c ---- */
static Boolean InputEnd(void) { return line_no >= NLINES; }
static void GetNextLine(as_dynstr_t* pLine) { pLine->p_str[0] = 'x'; pLine->p_str[1] = 0; line_no++; FirstInputTag = NULL; }
static void SplitLine(void) {}
void Preprocess(void) {}
static void Produce_Code(void)
{
  int i = line_no - 1;
  if (in_touch_ll[i] & 1) { ListLine[0] = '='; ListLine[1] = 0; }          /* e.g. SET/EQU, IF, ENDIF, SECTION, macro call */
  if (in_touch_cl[i] & 1) { CodeLen = in_cl[i]; DontPrint = in_dont[i] & 1; }
}
static void ExpandINCLUDE_Core(tStrComp const* pArg, Boolean SearchPath) { (void)pArg; (void)SearchPath; }
void MakeList(char const* pSrcLine)
{
  int i = line_no - 1;
  (void)pSrcLine;
  if (i >= 0 && i < NLINES) { seen_ll[i] = ListLine[0]; seen_cl[i] = CodeLen; seen_dp[i] = DontPrint; }
  lists++;
}

static char one[STRINGSIZE], ll[STRINGSIZE], cur[STRINGSIZE], fname[2] = "f";

void harness(void)
{
  int i;
  LOADA(in_touch_ll, NLINES); LOADA(in_touch_cl, NLINES); LOADA(in_dont, NLINES); LOADA(in_cl, NLINES);
  for (i = 0; i < NLINES; i++) ASSUME(in_cl[i] >= 1 && in_cl[i] <= 100);
  OneLine.p_str = one; OneLine.capacity = sizeof(one); ListLine = ll; CurrFileName = cur;
  QuietMode = True; ENDOccured = False; FirstInputTag = NULL; FirstOutputTag = NULL; DoLst = eLstMacroExpAll; IncDepth = 0;
  ll[0] = 0; CodeLen = 0; DontPrint = False;

  ProcessFile(fname);

  CHECK(lists == NLINES, "one listing call per source line");
  for (i = 0; i < NLINES; i++)
  {
    CHECK(seen_ll[i] == ((in_touch_ll[i] & 1) ? '=' : 0), "the listing annotation of a line is the one this line produced (none if it produced none)");
    CHECK(seen_cl[i] == ((in_touch_cl[i] & 1) ? in_cl[i] : 0), "the code length listed for a line is the one this line produced");
    CHECK(seen_dp[i] == ((in_touch_cl[i] & 1) ? (Boolean)(in_dont[i] & 1) : False), "the reservation flag of a line is the one this line produced");
  }
  WITNESS("end");
}
