#!/usr/bin/env python3
"""run.py <PROPERTY> [--tier quick|thorough] [--only name-substring] [--replay file]

Decides one property of /verif/properties.jsonl by bounded symbolic execution of
the real /repo sources with CBMC (see DESIGN.md).  Exit 0 = held within the
stated bounds, 1 = VIOLATION (replayed natively), 2 = broken/inconclusive check.
"""
import argparse, importlib.util, os, sys

HERE = os.path.dirname(os.path.abspath(__file__))
sys.path.insert(0, os.path.join(HERE, "lib"))
import vcore  # noqa: E402


def load_spec(prop):
    p = os.path.join(HERE, "harness", prop, "spec.py")
    spec = importlib.util.spec_from_file_location("spec_" + prop, p)
    m = importlib.util.module_from_spec(spec)
    spec.loader.exec_module(m)
    return m


def main():
    ap = argparse.ArgumentParser()
    ap.add_argument("prop")
    ap.add_argument("--tier", default=os.environ.get("VERIF_TIER", "quick"))
    ap.add_argument("--only", default=None)
    ap.add_argument("--replay", default=None)
    a = ap.parse_args()
    m = load_spec(a.prop)
    obs = m.OBLIGATIONS
    if a.only:
        obs = [o for o in obs if a.only in o["name"]]
    if a.replay:
        return replay(a.prop, obs, a.replay)
    return vcore.run_property(a.prop, a.tier, obs, getattr(m, "META", {}))


def replay(prop, obs, path):
    import re
    head = open(path).readline()
    mm = re.search(r"harness=(\S+)", head)
    name = mm.group(1)
    ob = [o for o in obs if o["name"] == name]
    if not ob:
        print("no such harness", name)
        return 2
    run = vcore.Run(prop, "quick", 0)
    try:
        odir = os.path.join(run.scratch, name)
        os.makedirs(odir)
        exe = vcore.build_native(run, ob[0], odir)
        verdict, txt = vcore.native_replay(exe, path)
        print(txt)
        print("native replay verdict:", verdict)
        return 1 if verdict in vcore.REPRODUCED else 0
    finally:
        run.cleanup()


if __name__ == "__main__":
    sys.exit(main())
