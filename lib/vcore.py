"""vcore.py -- driver core: build real /repo translation units with goto-cc, run CBMC,
classify results, replay counterexamples natively, write evidence.

Every run regenerates everything from /repo's current working tree into a fresh
scratch directory (default under /var/tmp) which is removed at the end.
"""
import json, os, re, shutil, signal, subprocess, sys, tempfile, threading, time, hashlib
from concurrent.futures import ThreadPoolExecutor

REPO = os.environ.get("VERIF_REPO", "/repo")
VERIF = os.path.dirname(os.path.dirname(os.path.abspath(__file__)))
STUBS = os.path.join(VERIF, "stubs")
SCRATCH_BASE = os.environ.get("VERIF_SCRATCH", "/var/tmp")
NCPU = int(os.environ.get("VERIF_JOBS", str(os.cpu_count() or 4)))

OK_CLASSES_MUST_HOLD = None  # every non-witness property must hold


def cfg_dir():
    d = os.path.join(REPO, "_build")
    if os.path.exists(os.path.join(d, "config.h")):
        return d
    return os.path.join(VERIF, "cfg")


def gen_rsc(dest):
    """message-number headers (<tool>.rsc) regenerated from the .res files of the current tree: rescomp numbers the
    'Message' entries in order of appearance, 'Include' files first-come (checked against a cmake build: identical
    numbering for all ten catalogues).  Keeps the checks independent of a possibly stale /repo/_build."""
    os.makedirs(dest, exist_ok=True)
    def msgs(f, depth=0):
        out = []
        path = os.path.join(REPO, f)
        if depth > 8 or not os.path.exists(path):
            return out
        for ln in open(path, encoding="latin-1"):
            m = re.match(r"\s*Include\s+(\S+)", ln)
            if m:
                out += msgs(m.group(1), depth + 1)
                continue
            m = re.match(r"\s*Message\s+(\S+)", ln)
            if m:
                out.append(m.group(1))
        return out
    for f in sorted(os.listdir(REPO)):
        if not f.endswith(".res"):
            continue
        n = f[:-4]
        g = "_VERIF_GEN_%s_RSC" % n.upper()
        txt = "#ifndef %s\n#define %s\n#define MsgId1 1\n#define MsgId2 2\n" % (g, g)
        txt += "".join("#define Num_%s %d\n" % (m, i) for i, m in enumerate(msgs(f)))
        txt += "#endif\n"
        with open(os.path.join(dest, n + ".rsc"), "w") as fh:
            fh.write(txt)
    return dest


def cflags(scratch):
    rsc = os.path.join(os.path.dirname(scratch.rstrip("/")), "_rsc")      # generated once per run (Run.__init__)
    return ["-I" + scratch, "-I" + rsc, "-I" + STUBS, "-I" + REPO, "-I" + cfg_dir(),
            '-DLIBDIR="/usr/local/lib/asl"', "-std=gnu11", "-DNDEBUG", "-DASL_VERIF"]


# --------------------------------------------------------------------------
# source cutting: rename the *definition* of a function so the harness can
# supply a contract stub under the original name (the unmodified callers in the
# same translation unit then call the stub).  Equivalent to goto-instrument
# --remove-function-body, but also works for the native replay build.

def cut_source(text, names, fname="?"):
    lines = text.split("\n")
    done = set()
    for name in names:
        pat = re.compile(r"^(?![\s#/])[A-Za-z_][\w\s\*]*?\b" + re.escape(name) + r"\s*\(")
        for i, ln in enumerate(lines):
            if not pat.match(ln):
                continue
            # definition or prototype?  scan to first ';' or '{' at paren depth 0
            depth = 0
            kind = None
            j = i
            pos = ln.index(name)
            while j < len(lines) and kind is None:
                seg = lines[j][pos:] if j == i else lines[j]
                for ch in seg:
                    if ch == "(":
                        depth += 1
                    elif ch == ")":
                        depth -= 1
                    elif depth == 0 and ch == ";":
                        kind = "proto"
                        break
                    elif depth == 0 and ch == "{":
                        kind = "def"
                        break
                j += 1
            if kind == "def":
                # prototype of the original name (so that callers in this file still see a declaration)
                sig = "\n".join(lines[i:j])
                sig = sig[:sig.rindex("{")].rstrip() + ";"
                lines[i] = re.sub(r"\b" + re.escape(name) + r"(\s*\()", name + r"__real\1", ln, count=1)
                lines[i] = sig.replace("\n", " ") + " " + lines[i]
                done.add(name)
                break
    missing = [n for n in names if n not in done]
    if missing:
        raise RuntimeError("cut: definition not found in %s: %s" % (fname, missing))
    return "\n".join(lines)


class Run:
    """One property run: owns the scratch directory and the unit cache."""

    def __init__(self, prop, tier, seed):
        self.prop, self.tier, self.seed = prop, tier, seed
        self.scratch = tempfile.mkdtemp(prefix="verif_%s_" % prop, dir=SCRATCH_BASE)
        gen_rsc(os.path.join(self.scratch, "_rsc"))
        self.lock = threading.Lock()
        self.cache = {}
        self.t0 = time.time()

    def cleanup(self):
        shutil.rmtree(self.scratch, ignore_errors=True)


def sh(cmd, cwd=None, timeout=None, mem_gb=None, env=None):
    def pre():
        os.setsid()
        if mem_gb:
            import resource
            b = int(mem_gb * (1 << 30))
            resource.setrlimit(resource.RLIMIT_AS, (b, b))
    t0 = time.time()
    p = subprocess.Popen(cmd, cwd=cwd, stdout=subprocess.PIPE, stderr=subprocess.PIPE,
                         preexec_fn=pre, env=env)
    try:
        out, err = p.communicate(timeout=timeout)
        to = False
    except subprocess.TimeoutExpired:
        try:
            os.killpg(p.pid, signal.SIGKILL)
        except ProcessLookupError:
            pass
        out, err = p.communicate()
        to = True
    return dict(rc=p.returncode, out=out.decode("utf-8", "replace"), err=err.decode("utf-8", "replace"),
                timeout=to, wall=time.time() - t0, pid=p.pid)


def prepare_sources(run, ob, odir):
    """copy the repo files this obligation touches into odir/src, applying cuts"""
    sdir = os.path.join(odir, "src")
    os.makedirs(sdir, exist_ok=True)
    cuts = ob.get("cuts", {})
    files = list(ob.get("include", [])) + list(ob.get("units", []))
    for f in list(cuts) + list(ob.get("subst", {})):
        if f not in files:
            raise RuntimeError("cut for %s but file not in include/units" % f)
    for f in files:
        text = open(os.path.join(REPO, f), encoding="latin-1").read()
        if f in cuts:
            text = cut_source(text, cuts[f], f)
        for (a, b) in ob.get("subst", {}).get(f, []):
            # stated size reductions of compile-time constants (e.g. a copy-buffer size); must match exactly once
            if text.count(a) != 1:
                raise RuntimeError("subst: %r occurs %d times in %s" % (a, text.count(a), f))
            text = text.replace(a, b)
        open(os.path.join(sdir, f), "w", encoding="latin-1").write(text)
    return sdir


def build_goto(run, ob, odir):
    sdir = prepare_sources(run, ob, odir)
    flags = cflags(odir) + ["-D" + d for d in ob.get("defs", [])]
    objs = []
    hsrc = os.path.join(VERIF, "harness", run.prop, ob["src"])
    jobs = [(hsrc, os.path.join(odir, "h.gb"))]
    for u in ob.get("units", []):
        jobs.append((os.path.join(sdir, u), os.path.join(odir, u + ".gb")))
    for s in ob.get("stubs", []):
        jobs.append((os.path.join(STUBS, s), os.path.join(odir, "stub_" + s + ".gb")))
    for src, dst in jobs:
        r = sh(["goto-cc", "-c", src, "-o", dst] + flags, timeout=300)
        if r["rc"] != 0:
            raise RuntimeError("goto-cc failed for %s:\n%s" % (src, (r["err"] + r["out"])[-4000:]))
        objs.append(dst)
    allgb = os.path.join(odir, "all.gb")
    r = sh(["goto-cc"] + objs + ["-o", allgb], timeout=300)
    if r["rc"] != 0:
        raise RuntimeError("goto-cc link failed:\n%s" % (r["err"] + r["out"])[-4000:])
    # no-body guard: CBMC lets calls to body-less functions return nondet, silently.  Every body-less
    # function that is statically reachable from the entry point and not on the obligation's allow-list
    # gets a trapping body (assert false), so reaching it makes the check fail instead of inventing values.
    r = sh(["cbmc", allgb, "--function", ob.get("entry", "harness"), "--drop-unused-functions", "--show-goto-functions", "--json-ui"], timeout=300)
    nobody = []
    try:
        for m in json.loads(r["out"]):
            if "functions" in m:
                nobody = [f["name"] for f in m["functions"] if not f.get("isBodyAvailable") and not f["name"].startswith(("__CPROVER", "__builtin", "__VERIFIER", "__sync", "__atomic"))]
    except Exception:
        raise RuntimeError("cannot list goto functions:\n" + (r["out"] + r["err"])[-2000:])
    trap = sorted(set(nobody) - set(ob.get("allow_nobody", [])) - BUILTIN_OK)
    ob["_trapped"] = trap
    allowed = sorted(set(nobody) & set(ob.get("allow_nobody", [])))
    if allowed:
        # explicitly allowed body-less callees (libm): result arbitrary, no side effects
        gb1 = os.path.join(odir, "all1.gb")
        rx = "^(" + "|".join(re.escape(t) for t in allowed) + ")$"
        r = sh(["goto-instrument", "--generate-function-body", rx, "--generate-function-body-options", "nondet-return", allgb, gb1], timeout=300)
        if r["rc"] != 0:
            raise RuntimeError("goto-instrument generate-function-body (allowed) failed:\n" + (r["err"] + r["out"])[-3000:])
        allgb = gb1
    if trap:
        gb2 = os.path.join(odir, "all2.gb")
        rx = "^(" + "|".join(re.escape(t) for t in trap) + ")$"
        mode = "nondet-return" if ob.get("nobody_mode") == "nondet" else "assert-false-assume-false"
        r = sh(["goto-instrument", "--generate-function-body", rx, "--generate-function-body-options", mode, allgb, gb2], timeout=300)
        if r["rc"] != 0:
            raise RuntimeError("goto-instrument generate-function-body failed:\n" + (r["err"] + r["out"])[-3000:])
        return gb2
    return allgb


# library functions CBMC models itself (or whose nondet result is harmless: none so far)
BUILTIN_OK = set()


BACKENDS = {
    "sat": [],
    "cadical": ["--sat-solver", "cadical"],
    "minisat": ["--sat-solver", "minisat2"],
    "kissat": ["--external-sat-solver", "kissat"],
    "z3": ["--z3"],
    "cvc5": ["--cvc5"],
}


def cbmc_cmd(ob, gb, backend, extra=()):
    cmd = ["cbmc", gb, "--function", ob.get("entry", "harness"), "--json-ui",
           "--no-standard-checks", "--bounds-check", "--pointer-check", "--div-by-zero-check",
           "--unwinding-assertions", "--no-malloc-may-fail", "--drop-unused-functions",
           "--object-bits", str(ob.get("object_bits", 10)), "--verbosity", "8"]
    uw = list(ob.get("unwindset", [])) + list(ob.get("_unwind_fn_expanded", []))
    if uw:
        cmd += ["--unwindset", ",".join(uw)]
    if ob.get("unwind") is not None:
        cmd += ["--unwind", str(ob["unwind"])]
    cmd += list(ob.get("cbmc", []))
    cmd += BACKENDS[backend]
    cmd += list(extra)
    return cmd


def parse_cbmc(out):
    """-> (results list, messages list, status) ; None results when output unusable"""
    try:
        j = json.loads(out)
    except Exception:
        # truncated JSON (killed): try to salvage nothing
        return None, [], "unparsable"
    results, msgs, status = None, [], None
    for m in j:
        if "result" in m:
            results = m["result"]
        elif "messageText" in m:
            msgs.append((m.get("messageType", ""), m["messageText"]))
        elif "cProverStatus" in m:
            status = m["cProverStatus"]
    return results, msgs, status


class MemBudget:
    """admission control for solver processes: an obligation reserves its expected resident memory before its
    back ends start, so that 16 workers do not push the machine into swap / out-of-memory (which would turn a
    passing check into 'inconclusive').  Reservation = half the address-space limit for obligations that state
    mem_gb (resident size stays well below the limit -- measured), 2 GB otherwise; times the number of back ends."""
    def __init__(self, total):
        self.total, self.used, self.cv = total, 0.0, threading.Condition()
    def acquire(self, n):
        n = min(n, self.total)
        with self.cv:
            while self.used + n > self.total:
                self.cv.wait()
            self.used += n
        return n
    def release(self, n):
        with self.cv:
            self.used -= n
            self.cv.notify_all()


MEM_BUDGET = MemBudget(float(os.environ.get("VERIF_MEM_BUDGET_GB", "44")))


def run_cbmc_portfolio(ob, gb, extra=(), want_results=True):
    need = (ob["mem_gb"] / 2.0 if "mem_gb" in ob else 2.0) * len(ob.get("backends", ["cadical"]))
    got = MEM_BUDGET.acquire(need)
    try:
        return run_cbmc_portfolio_(ob, gb, extra, want_results)
    finally:
        MEM_BUDGET.release(got)


def run_cbmc_portfolio_(ob, gb, extra=(), want_results=True):
    """run the obligation's back ends in parallel; first definitive answer wins"""
    backends = ob.get("backends", ["cadical"])
    timeout = ob.get("timeout", 600)
    mem = ob.get("mem_gb", 12)
    winner = {}
    procs = []
    lock = threading.Lock()
    done = threading.Event()

    def one(b):
        cmd = cbmc_cmd(ob, gb, b, extra)
        def pre():
            os.setsid()
            import resource
            bts = int(mem * (1 << 30))
            resource.setrlimit(resource.RLIMIT_AS, (bts, bts))
        t0 = time.time()
        # solver temp files (external SAT solver CNF, SMT2 dumps) go into the obligation's scratch directory, removed with it
        p = subprocess.Popen(cmd, stdout=subprocess.PIPE, stderr=subprocess.PIPE, preexec_fn=pre,
                             env=dict(os.environ, TMPDIR=os.path.dirname(gb)))
        with lock:
            procs.append(p)
        try:
            out, err = p.communicate(timeout=timeout)
            to = False
        except subprocess.TimeoutExpired:
            try:
                os.killpg(p.pid, signal.SIGKILL)
            except ProcessLookupError:
                pass
            out, err = p.communicate()
            to = True
        wall = time.time() - t0
        out = out.decode("utf-8", "replace")
        res, msgs, status = parse_cbmc(out)
        errs = [t for (k, t) in msgs if k == "ERROR"] + ([] if "(error" not in out else ["(error in solver output"])
        definitive = (not to) and res is not None and status in ("success", "failure") and not errs
        r = dict(backend=b, results=res, msgs=msgs, status=status, timeout=to, wall=wall,
                 rc=p.returncode, definitive=definitive, errs=errs, cmd=cmd,
                 stderr=err.decode("utf-8", "replace")[-2000:])
        with lock:
            if definitive and not winner:
                winner.update(r)
                done.set()
                for q in procs:
                    if q is not p and q.poll() is None:
                        try:
                            os.killpg(q.pid, signal.SIGKILL)
                        except ProcessLookupError:
                            pass
        return r

    with ThreadPoolExecutor(max_workers=len(backends)) as ex:
        rs = list(ex.map(one, backends))
    if winner:
        return winner, rs
    return None, rs


def expand_unwind_fn(gb, table):
    """{function: bound} -> ['function.N:bound', ...] for every loop of that function (ids from cbmc --show-loops)"""
    r = sh(["cbmc", gb, "--show-loops"], timeout=120)
    out = []
    for m in re.finditer(r"^Loop (\S+?)\.(\d+):", r["out"], re.M):
        fn = m.group(1)
        if fn in table:
            out.append("%s.%s:%d" % (fn, m.group(2), table[fn]))
    return out


WITNESS_PREFIX = "WITNESS:"


def classify(results):
    viol, wit_ok, wit_bad, nprops, unknown = [], [], [], 0, []
    for r in results:
        desc = r.get("description", "")
        nprops += 1
        if desc.startswith(WITNESS_PREFIX):
            (wit_ok if r["status"] == "FAILURE" else wit_bad).append(desc)
        elif r["status"] == "FAILURE":
            viol.append(r)
        elif r["status"] != "SUCCESS":
            unknown.append(r)      # UNKNOWN: not decided because an earlier fatal property failed
    if unknown and not viol:
        viol = unknown             # undecided without a cause: surfaces as a non-reproducing failure = broken check
    return viol, wit_ok, wit_bad, nprops


def extract_inputs(trace):
    """inputs are file-scope variables named in_*: the first assignment in a trace is the static
    zero-initialisation, the second one is the LOAD() from a nondeterministic value; later
    assignments (the code under test writing through an alias) are not inputs."""
    seen = {}
    vals = {}
    for s in trace:
        if s.get("stepType") != "assignment":
            continue
        lhs = s.get("lhs", "")
        m = re.match(r"^(in_\w+)(?:\[(\d+)l?\])?$", lhs)
        if not m:
            continue
        v = s.get("value", {})
        b = v.get("binary")
        if b is None:
            continue
        key = (m.group(1), int(m.group(2)) if m.group(2) is not None else -1)
        seen[key] = seen.get(key, 0) + 1
        if seen[key] > 2:
            continue
        n = len(b) // 8
        if n == 0:
            n = 1
            b = b.rjust(8, "0")
        iv = int(b, 2)
        vals[key] = (iv.to_bytes(n, "little"), v.get("data"))
    return vals


def write_replay(path, ob, prop, vals, failed):
    os.makedirs(os.path.dirname(path), exist_ok=True)
    with open(path, "w") as f:
        f.write("# property=%s harness=%s\n" % (prop, ob["name"]))
        for fr in failed:
            f.write("# failed: %s [%s] %s:%s\n" % (fr.get("description"), fr.get("property"),
                                                    fr.get("sourceLocation", {}).get("file"), fr.get("sourceLocation", {}).get("line")))
        for (name, idx), (bts, data) in sorted(vals.items()):
            f.write("%s %d %s\n" % (name, idx, bts.hex()))
        f.write("# human-readable\n")
        for (name, idx), (bts, data) in sorted(vals.items()):
            f.write("#   %s%s = %s\n" % (name, "" if idx < 0 else "[%d]" % idx, data))


_hdr_cache = {}


def is_data_symbol(name):
    """heuristic: NAME is declared 'extern <type> NAME...;' without a parameter list in one of the repo headers"""
    if "text" not in _hdr_cache:
        import glob
        _hdr_cache["text"] = "\n".join(open(h, encoding="latin-1").read() for h in glob.glob(os.path.join(REPO, "*.h")))
    return re.search(r"extern[^;()]*[\s\*,]" + re.escape(name) + r"\s*(\[[^\]]*\])*\s*[,;]", _hdr_cache["text"]) is not None


def build_native(run, ob, odir):
    sdir = os.path.join(odir, "src")
    if not os.path.isdir(sdir):
        prepare_sources(run, ob, odir)
    flags = cflags(odir) + ["-D" + d for d in ob.get("defs", [])] + ["-DREPLAY", "-g", "-O0", "-w",
                                                                      "-fsanitize=address,bounds", "-fno-sanitize-recover=all",
                                                                      "-fno-omit-frame-pointer"]
    srcs = [os.path.join(VERIF, "harness", run.prop, ob["src"])]
    srcs += [os.path.join(sdir, u) for u in ob.get("units", [])]
    srcs += [os.path.join(STUBS, s) for s in ob.get("stubs", [])]
    srcs += [os.path.join(STUBS, "replay_rt.c"), os.path.join(STUBS, "replay_main.c")]
    exe = os.path.join(odir, "replay.bin")
    extra = []
    for attempt in range(4):
        r = sh(["gcc"] + flags + srcs + extra + ["-o", exe, "-lm"], timeout=300)
        if r["rc"] == 0:
            break
        und = sorted(set(re.findall(r"undefined reference to `(\w+)'", r["err"])))
        if not und:
            break
        # callees that the CBMC run never reached (dropped as unused): give them trapping bodies
        tf = os.path.join(odir, "undef%d.c" % attempt)
        with open(tf, "w") as f:
            f.write("#include <stdio.h>\n#include <stdlib.h>\n")
            for u in und:
                if is_data_symbol(u):
                    # data object defined in a unit that is not linked: zero-initialised storage
                    f.write('char %s[256] __attribute__((aligned(16)));\n' % u)
                elif ob.get("nobody_mode") == "nondet":
                    f.write('long %s(void){ return 0; }\n' % u)      # frame assumption: no effect, result unused/zero
                else:
                    f.write('void %s(void){ fprintf(stderr, "REPLAY-UNMODELLED-CALLEE %s\\n"); exit(98); }\n' % (u, u))
        extra.append(tf)
    if r["rc"] != 0:
        raise RuntimeError("native replay build failed:\n" + (r["err"] + r["out"])[-4000:])
    return exe


def native_replay(exe, replay_file, timeout=20):
    env = dict(os.environ)
    env["VERIF_REPLAY"] = replay_file
    env["ASAN_OPTIONS"] = "detect_leaks=0:abort_on_error=0:exitcode=86"
    r = sh([exe], timeout=timeout, env=env)
    txt = r["out"] + r["err"]
    if r["timeout"]:
        verdict = "hang"
    elif "REPLAY-CHECK-FAILED" in txt:
        verdict = "assert"
    elif "AddressSanitizer" in txt or "runtime error" in txt or (r["rc"] is not None and r["rc"] < 0) or r["rc"] == 86:
        verdict = "crash"
    elif r["rc"] == 77:
        verdict = "assume-failed"
    elif r["rc"] == 0:
        verdict = "clean"
    else:
        verdict = "exit%s" % r["rc"]
    return verdict, txt[-3000:]


def nobody_callees(msgs):
    out = set()
    for k, t in msgs:
        m = re.search(r"no body for (?:callee|function) (\S+)", t)
        if m:
            out.add(m.group(1))
    return out


def run_obligation(run, ob):
    """returns a record dict; never raises (errors become status 'broken')"""
    rec = dict(name=ob["name"], status="?", wall=0.0, props=0, witnesses=0, violations=[], notes=[],
               functions=ob.get("functions", []), bounds=ob.get("bounds", ""), backends=ob.get("backends", ["cadical"]),
               stubs=ob.get("stubs", []), cuts=ob.get("cuts", {}), assumes=ob.get("assumes", []),
               units=sorted(set(ob.get("include", []) + ob.get("units", []))))
    t0 = time.time()
    odir = os.path.join(run.scratch, ob["name"])
    os.makedirs(odir, exist_ok=True)
    try:
        ob = dict(ob)
        gb = build_goto(run, ob, odir)
        rec["trapped_bodyless"] = ob.get("_trapped", [])
        if os.environ.get("VERIF_LINT"):
            build_native(run, ob, odir)      # development aid: the native replay build must link (catches duplicate definitions goto-cc tolerates)
            if os.environ.get("VERIF_LINT") == "only":
                rec["status"] = "pass"; rec["notes"].append("lint only: not solved")
                return rec
        if ob.get("unwind_fn"):
            ob["_unwind_fn_expanded"] = expand_unwind_fn(gb, ob["unwind_fn"])
        win, allr = run_cbmc_portfolio(ob, gb)
        rec["solver_s"] = sum(r["wall"] for r in allr)
        if not win:
            why = []
            for r in allr:
                why.append("%s: timeout=%s rc=%s status=%s errs=%s %s" % (r["backend"], r["timeout"], r["rc"], r["status"], r["errs"][:2],
                                                                          "" if r["results"] is not None else r["stderr"][-300:]))
            rec["status"] = "inconclusive"
            rec["notes"].append("no definitive answer: " + " | ".join(why))
            return rec
        rec["backend_used"] = win["backend"]
        for k, t in win["msgs"]:
            m = re.search(r"size of program expression: (\d+) steps", t)
            if m:
                rec["steps"] = max(rec.get("steps", 0), int(m.group(1)))
            m = re.search(r"(\d+) variables, (\d+) clauses", t)
            if m:
                rec["sat_vars"] = max(rec.get("sat_vars", 0), int(m.group(1)))
                rec["sat_clauses"] = max(rec.get("sat_clauses", 0), int(m.group(2)))
        viol, wit_ok, wit_bad, nprops = classify(win["results"])
        rec["props"] = nprops
        rec["witnesses"] = len(wit_ok)
        if wit_bad or (not wit_ok and not ob.get("no_witness")):
            rec["status"] = "broken"
            rec["notes"].append("vacuity guard: witness not reachable: %s; failed: %s" % (wit_bad or "none declared", [v.get("property") for v in viol][:4]))
            return rec
        expect = ob.get("expect_fail")
        if expect:
            # known-finding twin: the listed assertion is expected to be violated
            hit = [v for v in viol if any(e in v.get("description", "") for e in expect)]
            rec["status"] = "kf-present" if hit else "kf-absent"
            return rec
        if not viol:
            rec["status"] = "pass"
            return rec
        # counterexample: get a trace for the first few failed properties and replay natively
        rec["status"] = "fail"
        exe = None
        confirmed = []
        for v in viol[:3]:
            pid = v["property"]
            win2, _ = run_cbmc_portfolio(ob, gb, extra=["--trace", "--property", pid])
            item = dict(property=pid, description=v.get("description"), loc="%s:%s" % (
                v.get("sourceLocation", {}).get("file"), v.get("sourceLocation", {}).get("line")),
                klass=v.get("sourceLocation", {}).get("propertyClass") or "")
            if not win2:
                item["replay"] = "no-trace"
                rec["violations"].append(item)
                continue
            tr = None
            for r in win2["results"]:
                if r["property"] == pid and r.get("trace"):
                    tr = r["trace"]
            if tr is None:
                item["replay"] = "no-trace"
                rec["violations"].append(item)
                continue
            vals = extract_inputs(tr)
            rp = os.path.join(VERIF, "replays", run.prop, "%s.%s.replay" % (ob["name"], re.sub(r"\W+", "_", pid)))
            write_replay(rp, ob, run.prop, vals, [v])
            item["replay_file"] = rp
            item["inputs"] = {("%s[%d]" % k if k[1] >= 0 else k[0]): d for k, (b, d) in sorted(vals.items())[:40]}
            if ob.get("no_native_replay"):
                item["replay"] = "skipped"
            else:
                try:
                    if exe is None:
                        exe = build_native(run, ob, odir)
                    verdict, txt = native_replay(exe, rp)
                except Exception as e:  # build problem
                    verdict, txt = "replay-build-error", str(e)[-1500:]
                item["replay"] = verdict
                item["replay_out"] = txt[-800:]
                with open(rp, "a") as f:
                    f.write("# native replay verdict: %s\n" % verdict)
            rec["violations"].append(item)
        return rec
    except Exception as e:
        rec["status"] = "broken"
        rec["notes"].append("driver error: %s" % str(e)[-3000:])
        return rec
    finally:
        rec["wall"] = time.time() - t0
        if not os.environ.get("VERIF_KEEP"):
            shutil.rmtree(odir, ignore_errors=True)


REPRODUCED = ("assert", "crash", "hang")


def reproduced(v):
    """a counterexample counts as reproduced only by the matching native outcome: a violated harness
    assertion must fail natively as that kind of check, a memory/arithmetic fault must trap
    (sanitizer/signal), an unwinding assertion must hang"""
    pid = v.get("property", "")
    got = v.get("replay")
    if ".assertion." in pid:
        return got == "assert"
    if ".unwind." in pid or "recursion" in pid:
        return got == "hang"
    return got in ("crash", "assert")


def load_known_findings():
    p = os.path.join(VERIF, "known_findings.jsonl")
    out = []
    if os.path.exists(p):
        for ln in open(p):
            ln = ln.strip()
            if ln and not ln.startswith("#"):
                out.append(json.loads(ln))
    return out


def run_property(prop, tier, obligations, meta):
    """obligations: list of dicts (see harness/<prop>/spec.py).  Returns exit code."""
    seed = int(os.environ.get("VERIF_SEED", "0") or 0)
    run = Run(prop, tier, seed)
    if not os.environ.get("VERIF_EVIDENCE_DIR"):
        shutil.rmtree(os.path.join(VERIF, "replays", prop), ignore_errors=True)
    kfs = [k for k in load_known_findings() if k.get("property") == prop and k.get("status") == "open"]
    obs = []
    for ob in obligations:
        if ob.get("tier") == "experimental" and not os.environ.get("VERIF_EXPERIMENTAL"):
            continue            # harnesses that exist but do not finish inside any budget yet (not part of any claim)
        if tier == "quick" and ob.get("tier", "quick") != "quick":
            continue
        if tier == "thorough" and ob.get("quick_only"):
            continue
        ob = dict(ob)
        if tier == "thorough" and "thorough" in ob:
            ob.update(ob["thorough"])
        mine = [k for k in kfs if k.get("harness") == ob["name"]]
        if mine:
            base_defs = list(ob.get("defs", []))
            ob["defs"] = base_defs + ["KF_EXCLUDE_" + k["id"] for k in mine]
            for k in mine:
                twin = dict(ob)
                twin["name"] = ob["name"] + "__kf_" + k["id"]
                twin["defs"] = base_defs + ["KF_ONLY_" + k["id"]]
                twin["expect_fail"] = k.get("expect_fail", [""])
                twin["kf"] = k
                obs.append(twin)
        obs.append(ob)
    # order: permuted by seed only (verdicts do not depend on it)
    import random
    rnd = random.Random(seed)
    order = list(obs)
    rnd.shuffle(order)
    order.sort(key=lambda o: -o.get("cost", 1))
    width = max(1, NCPU // max(1, max(len(o.get("backends", ["sat"])) for o in order) if order else 1))
    width = int(os.environ.get("VERIF_WIDTH", width))
    recs = []
    try:
        with ThreadPoolExecutor(max_workers=width) as ex:
            futs = [(o, ex.submit(run_obligation, run, o)) for o in order]
            for o, f in futs:
                r = f.result()
                r["kf"] = o.get("kf")
                recs.append(r)
                print("[%s] %-40s %-12s %6.1fs props=%d wit=%d %s" % (prop, r["name"], r["status"], r["wall"], r["props"],
                                                                      r["witnesses"], "; ".join(r["notes"])[:160].replace("\n", " ")), flush=True)
    finally:
        run.cleanup()
    # verdict
    exit_code = 0
    violations = 0
    lines = []
    for r in recs:
        if r["status"] == "kf-present":
            lines.append("KNOWN-FINDING: property=%s %s" % (prop, r["kf"].get("what", r["kf"]["id"])))
        elif r["status"] == "kf-absent":
            lines.append("NOTE: known finding %s no longer reproduces on this tree" % r["kf"]["id"])
        elif r["status"] == "fail":
            conf = [v for v in r["violations"] if reproduced(v)]
            unconf = [v for v in r["violations"] if not reproduced(v)]
            for v in conf:
                violations += 1
                lines.append("VIOLATION property=%s replay=%s" % (prop, v["replay_file"]))
                lines.append("  harness=%s assertion=\"%s\" at %s native-replay=%s" % (r["name"], v["description"], v["loc"], v["replay"]))
            if conf:
                exit_code = 1
            if unconf and not conf:
                lines.append("BROKEN-CHECK: %s counterexample did not reproduce natively (%s): %s" % (
                    r["name"], [v.get("replay") for v in unconf], [v.get("description") for v in unconf]))
                if exit_code == 0:
                    exit_code = 2
        elif r["status"] in ("broken", "inconclusive"):
            lines.append("BROKEN-CHECK: %s %s: %s" % (r["name"], r["status"], "; ".join(r["notes"])[:1500]))
            if exit_code == 0:
                exit_code = 2
    for ln in lines:
        print(ln, flush=True)
    write_evidence(prop, tier, seed, recs, meta, time.time() - run.t0, violations)
    print("[%s] tier=%s obligations=%d pass=%d wall=%.0fs exit=%d" % (
        prop, tier, len(recs), sum(1 for r in recs if r["status"] == "pass"), time.time() - run.t0, exit_code), flush=True)
    return exit_code


def write_evidence(prop, tier, seed, recs, meta, wall, violations):
    passed = [r for r in recs if r["status"] == "pass"]
    nontriv = [r for r in recs if r["status"] in ("pass", "fail", "kf-present", "kf-absent") and r["witnesses"] > 0]
    samples = []
    for r in recs[:]:
        samples.append(dict(harness=r["name"], status=r["status"], functions=r["functions"], bounds=r["bounds"],
                            cbmc_properties=r["props"], witnesses_reached=r["witnesses"], backend=r.get("backend_used"),
                            solver_s=round(r.get("solver_s", 0), 1), cuts=r["cuts"], stubs=r["stubs"], trapped_bodyless=r.get("trapped_bodyless", [])[:40]))
    funcs = sorted({f for r in recs for f in r["functions"]})
    units = sorted({u for r in recs for u in r["units"]})
    ev = dict(
        property_id=prop, tier=tier, seed=seed, level="model_checking",
        coverage=dict(
            evaluations=sum(max(1, r["props"]) for r in recs),
            distinct_nontrivial=len(nontriv),
            rule="evaluations = CBMC properties (user assertions, bounds/pointer/div-by-zero checks, unwinding assertions, witnesses) "
                 "decided by the solver over all harness obligations of this run; an obligation counts as distinct and non-trivial "
                 "when the solver returned a definitive verdict AND every WITNESS assertion of the harness was shown reachable "
                 "(vacuity guard).",
            samples=samples,
            states=max(1, sum(r.get("sat_vars", 0) for r in recs)),
            transitions=max(1, sum(r.get("steps", 0) for r in recs)),
            traces_validated_against_impl=sum(1 for r in recs for v in r["violations"] if v.get("replay") not in (None, "no-trace", "skipped", "replay-build-error")),
            states_transitions_meaning="bounded model checking encodes the state space symbolically instead of enumerating it: 'states' is the number of "
                                       "propositional variables of the SAT encodings (0 for SMT back ends, which do not report it), 'transitions' the number of "
                                       "SSA program steps symbolically executed; traces_validated_against_impl counts counterexample traces replayed against a native build",
            obligations=len(recs), discharged=len(passed),
            functions_encoded=funcs, units=units,
            solver_s=round(sum(r.get("solver_s", 0) for r in recs), 1),
            outside_claim=meta.get("outside", []),
            known_findings=[r["kf"]["id"] for r in recs if r.get("kf") and r["status"] == "kf-present"],
            inconclusive=[r["name"] for r in recs if r["status"] in ("inconclusive", "broken")],
            violations_detail=[dict(harness=r["name"], v=[{k: v for k, v in x.items() if k != "replay_out"} for x in r["violations"]])
                               for r in recs if r["status"] == "fail"],
            exhaustive=False,
        ),
        assumptions=meta.get("assumptions", []) + sorted({a for r in recs for a in r["assumes"]}),
        wall_s=round(wall, 1), violations=violations)
    evdir = os.environ.get("VERIF_EVIDENCE_DIR", os.path.join(VERIF, "evidence"))
    os.makedirs(evdir, exist_ok=True)
    with open(os.path.join(evdir, prop + ".json"), "w") as f:
        json.dump(ev, f, indent=1)
