#!/usr/bin/env python3
"""Regenerates /verif/MANIFEST.json from the table below (kept in one place so it stays valid)."""
import json, os
HERE = os.path.dirname(os.path.dirname(os.path.abspath(__file__)))
TECH = "bounded symbolic execution of the real /repo C sources with CBMC 6.11 (goto-cc build, SAT/SMT back ends); counterexamples replayed natively against the same sources"
CLAIMED = {
 "C01": ("pass composition of the symbol table: the real EnterIntSymbolWithFlags/EnterSymbol/SymbolAdder/LookupSymbol/FindNode/ResetSymbolDefines for 2 symbols over every interleaving of 4 use/define events with arbitrary values: a pass that ends without repass request and without error gave every reference the symbol's final value; an unchanged layout requests no further pass; a moved constant forces one",
         "DESIGN.md C01", "tree replaced by a list contract, name handling cut to identity on one-letter names, no sections; termination (liveness) and the code generators' size selection are outside; the padded-label livelock is a known finding (DESIGN.md)"),
 "C02": ("WrErrorString counters as an inductive step (any counts < 2^31, any class/-Werror/-maxerrors), exit(3)+unlink on fatal, classification of every 16-bit message number in WrXErrorPos, EXPECT/ENDEXPECT bookkeeping",
         "DESIGN.md C02", "message text, position strings and output channels cut to empty bodies; exit() modelled; AssembleFile decision skeleton not yet covered"),
 "C04": ("asmcode.c writer: one inductive step each of WriteBytes/NewRecord/OpenFile/CloseFile/RetractWords from an arbitrary state satisfying the representation invariant, byte-exact through a witness cell at an arbitrary file offset",
         "DESIGN.md C04", "stdio replaced by the witness-cell file model (stubs/vfile.h, no I/O errors); relocation records outside; lines 1..8 bytes against the 512-byte buffer and 1..24 against a buffer shrunk to 16 (source substitution) quick, 1..48 against 32 thorough; little-endian host"),
 "C03": ("crash-freedom of the shared record reader of the utilities (ReadRecordHeader/SkipRecord/ReadRelocInfo on every file of <= 10 arbitrary bytes: no memory fault, documented exit status, every record consumes input) and of the assembler kernels whose inputs used to crash it: integer / and # (incl. -2^63 / -1), shifts, SUBSTR/CHARFROMSTR with arbitrary positions, every sequence of 4 conditional statements incl. stray ones, ALIGN incl. 0; the record loops of p2bin, pbind and p2hex (Intel32, Motorola) on a code file of one record with unconstrained header fields truncated at any length: no fault, no division by zero, bounded loops, exit status 2/3 only; PAGE geometry + symbol-table listing terminate",
         "DESIGN.md C03", "the utilities on files of more than one malformed record, plist as a whole, alink, dasl and the assembler front end on arbitrary source text do not finish under symex (harnesses kept as 'experimental') and are outside the claim"),
 "C05": ("P2BIN image: the real MeasureFile/OpenTarget/ProcessFile/CloseTarget on a code file of 2 records (long/short/entry forms, <= 4 bytes each, any start) with symbolic option state (-r explicit/auto, -l, -m per slice, -S -4..4, -e, -f, -segment, (offset)): every image byte through a witness cell, file length, auto range, entry header, overlap warning; RemoveOffset kernel",
         "DESIGN.md C05", "one granularity and one -m mode per obligation; quick: 2 light slices (1 record, window <= 16 bytes, no (offset)), thorough: 27 slices (2 records, window <= 64 bytes); copy buffer shrunk to 16 bytes; AddChunk cut to its contract; windows need not be aligned to the lane group; -s checksum, several input files and option text parsing are outside"),
 "C06": ("P2HEX ProcessFile on one data record (1..5 bytes, any start) and on two records of 1..2 bytes in either order with symbolic window, -R relocation, -a, line length 2/4, -M, +5, separate terminators: the text written is fed through a printf monitor into an online decoder per format (Intel 8/16/32, Motorola S, MOS): record syntax, count fields, checksums, and every decoded byte equals the source byte at the decoded address, each exactly once and in order",
         "DESIGN.md C06", "granularity 1, -m 0, one record; terminator/entry records of main(), Tektronix/DSK/Atmel/Mico8/C formats and default-format selection are outside; width of narrow %0NX arguments not checked (CBMC variadic model)"),
 "C07": ("PBIND conservation: the real OpenTarget/ProcessFile/CloseTarget + ReadRecordHeader/WriteRecordHeader/SkipRecord/FilterOK on 2 records of every kind with an -f list; the output is re-read by an independent reader and must hold exactly the kept records (CPU, segment, granularity, start, length, payload) in order, terminated by the creator record; PLIST ProcessSingle on 2 data records (long/short form, 0..4 bytes, granularity 1/2/4): family, segment, start, byte length, last address per line and per-segment totals through the printf monitor",
         "DESIGN.md C07", "PLIST main() (option parsing, summary printing) and relocation-info records not covered; pbind: quick with the two record kinds fixed per obligation (long+short, $82+long), all kinds in the thorough tier; 2 records x <= 2 payload bytes; copy buffer shrunk to 16 bytes; takes about 18 minutes"),
 "C08": ("operator bodies of operator.c (all 64-bit operand pairs; floats in stated sub-domains) and the operator table vs the manual's operator table",
         "DESIGN.md C08", "CBMC bit-precise integer/IEEE semantics; diag.c stub for the error interface; relocations cut; operator split inside EvalStrExpression, libm results, literals and functions not yet covered are outside the claim"),
 "C09": ("IEEE half/single/double/extended encoders of ieeefloat.c for every double bit pattern and both byte orders vs bit-level statements of IEEE-754 RNE / the x87 layout",
         "DESIGN.md C09", "CBMC's (float)/(_Float16) casts as round-to-nearest-even oracle; signalling-NaN payloads excluded; argument-list syntax, padding and integer range checks not yet covered"),
 "C13": ("EQU/SET rules through the real EnterIntSymbolWithFlags/SymbolAdder/LookupSymbol (a constant never changes silently, SET may, double definition and EQU/SET mixing are errors); resolution order of LookupSymbol/FindNode over a two-level section nesting incl. name[] / name[section] qualifiers; PUBLIC/GLOBAL/FORWARD list entries (CodePPSyms) take the target section of their own qualifier",
         "DESIGN.md C13", "tree as list contract, name handling cut to identity on one-letter names, qualifier parsing (GetSymSection/IdentifySection) cut to maps; local handles, PUSHV/POPV, case folding, temporary symbols and the redirect lists of EnterSymbol are not covered"),
 "C16": ("ReadLnCont (strutil.c) on every file of <= 3 bytes (4 thorough): CR before LF and a trailing ^Z are immaterial, backslash-newline joins lines, the return value is the number of physical lines consumed",
         "DESIGN.md C16", "kernels: line reader, FirstBlank (blank/tab separator search), as_strcasecmp; SplitLine (comments/colon), INCLUDE/macro wrapping and the per-target operand parsers are outside"),
 "C17": ("report-option non-interference at the emission step (2-safety by self-composition): the real WriteCode + BookKeeping run twice from the same arbitrary state under two arbitrary settings of -u/-g/-C/list mode/list mask and must hand the same records, counters and errors to the code-file writer",
         "DESIGN.md C17", "one step only; code-file writer and debug/use lists are call recorders; whole-run determinism, option placement and locale are outside"),
 "C18": ("reset completeness of ~40 per-file/per-pass core variables: arbitrary pre-state (what a predecessor file could leave), then the real AsmDefInit/AsmIFInit/AssembleFile_InitPass/AsmSubPassInit; every listed variable must hold its start value",
         "DESIGN.md C18", "callees building strings/symbols/CPU state are 'return nondet' under a frame assumption; InitPass callbacks of the code generators and heap table contents are outside"),
 "C10": ("address counters: every sequence of 3 (thorough: 4) statements from ORG/RORG/PHASE/DEPHASE/SEGMENT/SAVE/RESTORE/emit/reserve with arbitrary 64-bit arguments through the real asmallg.c handlers and asmsub.c ProgCounter/EProgCounter against a reference model of per-segment counters, phase stacks and the save stack; ALIGN n as separate obligations (n <= 255, addresses around 0 and around 2^31)",
         "DESIGN.md C10", "argument values through a stub evaluator; WriteCode cut to its contract (verified in C04 writecode); ChkPC accepts everything; STRUCT/UNION symbols and SEGMENT name parsing outside"),
 "C14": ("Intel 4004/4040 (code4004.c complete: the real InitFields, MakeCode_4004, all Decode* handlers and register parsers) against a reference encoder written from the MCS-4/MCS-40 instruction set: all 45 operand-less mnemonics x CPU variant, all register and register-pair forms in both spellings, BBL/LDM/FIM/JUN/JMS/JCN/ISZ with arbitrary 64-bit operand values and any PC",
         "DESIGN.md C14", "claimed for the 4004/4040 target only; instruction hash table replaced by a list contract filled by the real InitFields; contract evaluator for operand values; 6502/65C02, Z80, MSP430, the AVR memory/long-jump forms, the Z80-syntax mode and undocumented instructions of the 8085 are not covered"),
 "C19": ("MakeList of asmlist.c: the address shown on a listing line is the load address + phase of the line's code, the listed words are the emitted bytes in order, each byte exactly once, and MakeList leaves code buffer, CodeLen and counters alone",
         "DESIGN.md C19", "listing formatter replaced by a token recorder; radix 16; plus the per-line reset of ListLine/CodeLen/DontPrint in ProcessFile; MAP, symbol table and share file outputs are not covered"),
 "C20": ("position selection for diagnostics: GetErrorPos and INCLUDE/MACRO/REPT_GetPos over chains of <= 3 input tags in native and -gnuerrors style; ExpandINCLUDE_Core/INCLUDE_Restorer reinstate the enclosing file's physical line counter and name; EXPECT/ENDEXPECT bookkeeping (asmerr.c); physical-line counting of ReadLnCont",
         "DESIGN.md C20", "formatter replaced by a token recorder; IRP/IRPC/WHILE tags, message text and column markers outside"),
 "C11": ("macro parameter substitution kernel: CompressLine + ExpandLine (asmsub.c) on every body line of <= 4 characters, parameter name of 1..2 letters, parameter number 0..19 and argument of <= 2 characters equals the textual replacement of whole (alphanumerically delimited) parameter names",
         "DESIGN.md C11", "two kernels (parameter substitution; argument binding in ExpandMacro for 2 parameters x 6 argument shapes); iteration stepping, nesting, INCLUDE/BINCLUDE and the end-to-end equivalence with hand expansion are outside"),
 "C12": ("asmif.c complete: every sequence of K statements (17 kinds, arbitrary 64-bit conditions/selectors, 0..3 arguments) vs a reference interpreter written from the manual",
         "DESIGN.md C12", "expression evaluator and symbol/macro/file look-ups replaced by stubs returning arbitrary values; listing decoration stubbed; K=4 quick / K=6 thorough with integer selectors; SWITCH/CASE with integer/float/string selector and mixed-type CASE lists in 26 typed slices (5 quick)"),
}
PENDING = "not claimed yet: harness under construction in this round (see DESIGN.md section 5 for the planned kernels)"
NA = {"C15": "dasl round trip relates two text pipelines (disassembler text -> SplitLine -> instruction look-up -> expression evaluation); symbolic text through those string routines does not finish under CBMC symex (measured), and enumerating opcodes concretely would be enumeration, not solver-based checking"}
ALL = ["C%02d" % i for i in range(1, 21)]
def main():
    checks = []
    for pid in ALL:
        if pid in CLAIMED:
            text, ref, note = CLAIMED[pid]
            checks.append(dict(property_id=pid, quick_cmd="python3 run.py %s --tier quick" % pid,
                               thorough_cmd="python3 run.py %s --tier thorough" % pid,
                               evidence_file="/verif/evidence/%s.json" % pid,
                               replay_cmd_template="python3 run.py %s --replay {path}" % pid,
                               engine="cbmc",
                               level_claimed=dict(category="model_checking", text="bounded model checking (all inputs within the stated bounds): " + text, design_ref=ref),
                               level_note=note, technique=TECH))
    na = [dict(property_id=p, reason=NA.get(p, PENDING)) for p in ALL if p not in CLAIMED]
    m = dict(version=1,
             setup_cmd="python3 tools/setup_check.py",
             hooks=dict(guard="ASL_VERIF", enable="checks compile /repo sources with goto-cc -DASL_VERIF (no hook code is needed by the solver side)",
                        baseline_off_cmd="bash tools/baseline_off.sh", source_commits=[], add_only=True),
             engines=[dict(name="cbmc", path="/verif/run.py", serves_properties=sorted(CLAIMED), kind_free_text="CBMC 6.11 bounded model checker driven by lib/vcore.py; z3/cvc5/kissat as alternative back ends")],
             checks=checks, not_applicable=na,
             notes="Every check regenerates its goto binaries from /repo's working tree into a scratch directory under /var/tmp. Exit 0 = held within bounds, 1 = VIOLATION (replayed natively), 2 = broken/inconclusive check.")
    json.dump(m, open(os.path.join(HERE, "MANIFEST.json"), "w"), indent=1)
if __name__ == "__main__":
    main()
