#!/bin/bash
# tools/try_seed.sh <seed-name> <worktree> <property> [run.py args...]
# 1. confirms the sub-agent's claims in its scratch worktree (demo fails with / passes without, ctest passes with),
# 2. stores patch/demo/meta under /verif/seeded/<seed-name>/,
# 3. applies the patch to /repo, runs the property's check, reverts /repo.
set -u
NAME=$1; WT=$2; PROP=$3; shift 3
OUT=/verif/seeded/$NAME
mkdir -p $OUT
cp $WT/seed_out/patch.diff $WT/seed_out/demo.sh $WT/seed_out/meta.json $OUT/ 2>/dev/null
echo "== confirm in scratch worktree"
( cd $WT/_b && cmake --build . -j8 >/dev/null 2>&1; ctest -j8 --timeout 900 2>&1 | grep "tests passed" ) | tee $OUT/confirm.txt
AS_MSGPATH=$WT/_b bash $OUT/demo.sh $WT/_b >/dev/null 2>&1; echo "demo with change: exit $?" | tee -a $OUT/confirm.txt
if [ -d $WT/_b0 ]; then AS_MSGPATH=$WT/_b0 bash $OUT/demo.sh $WT/_b0 >/dev/null 2>&1; echo "demo without change: exit $?" | tee -a $OUT/confirm.txt; fi
if [ "${SEED_SCRATCH:-0}" = "1" ]; then
  # long-running checks: run against the sub-agent's scratch worktree (which carries the patch) so that /repo stays
  # untouched and other checks can run meanwhile; evidence/replays of this run are not kept
  echo "== run check with VERIF_REPO=$WT (patched scratch worktree)"
  ( cd /verif && VERIF_REPO=$WT VERIF_EVIDENCE_DIR=/var/tmp/seed_evidence python3 run.py $PROP "$@" 2>&1 | grep -v "^WARNING" | tail -15 ) | tee $OUT/check_output.txt
else
  echo "== run check on patched /repo"
  git -C /repo apply $OUT/patch.diff || { echo "patch does not apply"; exit 3; }
  ( cd /verif && python3 run.py $PROP "$@" 2>&1 | grep -v "^WARNING" | tail -15 ) | tee $OUT/check_output.txt
  git -C /repo checkout -- .
  git -C /repo status --short | grep -v _build
fi
