#!/bin/bash
# runs the quick (default) or thorough command of every claimed check, one after the other; summary at the end
TIER=${1:-quick}
cd /verif
# the committed evidence is that of the quick tier (what the registered quick commands rewrite); a thorough sweep writes elsewhere
if [ "$TIER" = "thorough" ]; then export VERIF_EVIDENCE_DIR=${VERIF_EVIDENCE_DIR:-/var/tmp/thorough_evidence}; fi
for id in $(python3 -c "import json;print(' '.join(c['property_id'] for c in json.load(open('MANIFEST.json'))['checks']))"); do
  t0=$(date +%s)
  python3 run.py $id --tier $TIER > /var/tmp/run_all_${TIER}_$id.log 2>&1
  rc=$?
  echo "$id exit=$rc wall=$(( $(date +%s) - t0 ))s $(grep -c 'VIOLATION' /var/tmp/run_all_${TIER}_$id.log) violations"
done
