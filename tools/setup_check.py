#!/usr/bin/env python3
"""setup: nothing to build ahead of time (checks rebuild from /repo on every run); verify the tools exist."""
import shutil, sys
missing = [t for t in ("cbmc", "goto-cc", "gcc", "z3", "cvc5") if not shutil.which(t)]
if missing:
    print("missing tools:", missing); sys.exit(1)
print("setup ok")
