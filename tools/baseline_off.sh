#!/bin/bash
# Builds /repo WITHOUT the ASL_VERIF guard in a scratch directory and runs the 201 ctest cases.
set -e
B=$(mktemp -d /var/tmp/asl_baseline_XXXX)
trap 'rm -rf "$B"' EXIT
cmake -G Ninja -S /repo -B "$B" -DCMAKE_BUILD_TYPE=Release >"$B/cmake.log" 2>&1 || { tail -30 "$B/cmake.log"; exit 1; }
cmake --build "$B" -j16 >"$B/build.log" 2>&1 || { tail -30 "$B/build.log"; exit 1; }
ctest --test-dir "$B" -j8 --timeout 900 2>&1 | tail -5
