/* vlib.h -- harness vocabulary shared by the CBMC build and the native replay build.
 *
 * CBMC build (default): inputs are nondeterministic, ASSUME/CHECK are solver
 * assumptions/assertions, WITNESS(l) is an assertion that MUST be violated
 * (reachability witness / vacuity guard).
 *
 * Native build (-DREPLAY): inputs are read from the replay file named by
 * $VERIF_REPLAY (written by the driver from the solver's counterexample),
 * CHECK prints "REPLAY-CHECK-FAILED" and exits 1, ASSUME exits 77.
 */
#ifndef VLIB_H
#define VLIB_H

#ifdef REPLAY
#include <stdio.h>
#include <stdlib.h>
void replay_load(const char *name, long idx, void *p, unsigned long n);
void replay_assume_fail(const char *c, int line);
void replay_check_fail(const char *msg, int line);
void replay_witness(const char *l);
#define LOAD(v) replay_load(#v, -1, &(v), sizeof(v))
#define LOADI(a, i) replay_load(#a, (long)(i), &(a)[i], sizeof((a)[0]))
#define ASSUME(c) do { if (!(c)) replay_assume_fail(#c, __LINE__); } while (0)
#define CHECK(c, msg) do { if (!(c)) replay_check_fail(msg, __LINE__); } while (0)
#define WITNESS(l) replay_witness(l)
#define NONDET(T) ((T)0)
#else
#define LOAD(v) { __typeof__(v) _vt; (v) = _vt; }
#define LOADI(a, i) { __typeof__((a)[0]) _vt; (a)[i] = _vt; }
#define ASSUME(c) __CPROVER_assume(c)
#define CHECK(c, msg) __CPROVER_assert((c), msg)
#define WITNESS(l) __CPROVER_assert(0, "WITNESS:" l)
#endif

/* load every element of a fixed-size array (constant bound: CBMC unrolls it) */
#define LOADA(a, n) { for (unsigned _li = 0; _li < (unsigned)(n); _li++) LOADI(a, _li); }

#endif
