/* replay_rt.c -- native runtime for -DREPLAY builds of the harnesses.
 * Replay file format (written by lib/vcore.py from a CBMC trace), one per line:
 *     <name> <index|-1> <hex bytes little endian>
 * Unlisted inputs are zero.
 */
#include <stdio.h>
#include <stdlib.h>
#include <string.h>

#define MAXENT 8192
static struct { char name[64]; long idx; unsigned char bytes[16]; unsigned n; } ent[MAXENT];
static int nent = -1;

static void load_file(void)
{
  const char *fn = getenv("VERIF_REPLAY");
  FILE *f;
  char name[64], hex[64];
  long idx;
  nent = 0;
  if (!fn) return;
  f = fopen(fn, "r");
  if (!f) { fprintf(stderr, "REPLAY: cannot open %s\n", fn); exit(99); }
  {
    char line[512];
    while (nent < MAXENT && fgets(line, sizeof line, f))
    {
      unsigned l, i;
      if (line[0] == '#') continue;
      if (sscanf(line, "%63s %ld %63s", name, &idx, hex) != 3) continue;
      l = (unsigned)strlen(hex) / 2;
      strcpy(ent[nent].name, name);
      ent[nent].idx = idx;
      ent[nent].n = l > 16 ? 16 : l;
      for (i = 0; i < ent[nent].n; i++)
      {
        unsigned v;
        sscanf(hex + 2 * i, "%2x", &v);
        ent[nent].bytes[i] = (unsigned char)v;
      }
      nent++;
    }
  }
  fclose(f);
}

void replay_load(const char *name, long idx, void *p, unsigned long n)
{
  int i;
  if (nent < 0) load_file();
  memset(p, 0, n);
  for (i = nent - 1; i >= 0; i--)
    if (ent[i].idx == idx && !strcmp(ent[i].name, name))
    {
      memcpy(p, ent[i].bytes, n < ent[i].n ? n : ent[i].n);
      return;
    }
}

void replay_assume_fail(const char *c, int line)
{
  printf("REPLAY-ASSUME-FAILED line %d: %s\n", line, c);
  fflush(stdout);
  exit(77);
}

void replay_check_fail(const char *msg, int line)
{
  printf("REPLAY-CHECK-FAILED line %d: %s\n", line, msg);
  fflush(stdout);
  exit(1);
}

void replay_witness(const char *l)
{
  printf("REPLAY-WITNESS %s\n", l);
}
