/* fmt_off.c -- formatting is not the subject: the repository's printf-alikes get
 * empty bodies (destination becomes the empty string), the bounded string copy
 * helpers get a minimal trusted re-implementation (strutil.c itself is checked in C03-K4).
 */
#include "stdinc.h"
#include "strutil.h"
#include "dynstr.h"
#include <stdarg.h>

#ifndef FMT_OFF_NO_PRINTF
int as_snprintf(char* pDest, size_t DestSize, const char* pFormat, ...) { (void)pFormat; if (DestSize) pDest[0] = 0; return 0; }
int as_snprcatf(char* pDest, size_t DestSize, const char* pFormat, ...) { (void)pDest; (void)DestSize; (void)pFormat; return 0; }
int as_sdprintf(struct as_dynstr* p_dest, const char* pFormat, ...) { (void)p_dest; (void)pFormat; return 0; }
int as_sdprcatf(struct as_dynstr* p_dest, const char* pFormat, ...) { (void)p_dest; (void)pFormat; return 0; }

#endif

#ifndef FMT_OFF_NO_STR
size_t strmaxcpy(char* dest, char const* src, size_t Max)
{
  size_t i = 0;
  if (!Max) return 0;
  while (i + 1 < Max && src[i]) { dest[i] = src[i]; i++; }
  dest[i] = 0;
  return i;
}
size_t strmaxcat(char* Dest, char const* Src, size_t MaxLen)
{
  size_t l = 0, i = 0;
  while (Dest[l]) l++;
  while (l + 1 < MaxLen && Src[i]) Dest[l++] = Src[i++];
  Dest[l] = 0;
  return l;
}
void strmaxprep(char* p_dest, char const* p_src, size_t max_len)
{
  size_t dl = 0, sl = 0, i;
  while (p_dest[dl]) dl++;
  while (p_src[sl]) sl++;
  if (sl + dl + 1 > max_len) return;   /* harnesses keep strings far below the limit */
  for (i = dl + 1; i > 0; i--) p_dest[i - 1 + sl] = p_dest[i - 1];
  for (i = 0; i < sl; i++) p_dest[i] = p_src[i];
}
#endif
