#ifndef DIAG_H
#define DIAG_H
#define DIAG_MAX 8
extern int diag_cnt, diag_errs, diag_warns, diag_fatals, diag_last;
extern int diag_nums[DIAG_MAX];
void diag_reset(void);
int diag_has(int num);
#endif
