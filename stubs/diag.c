/* diag.c -- contract stub for the diagnostic interface (asmerr.c / errmsg.c).
 * Records how many diagnostics were raised, the last number and its class.
 * Message text is not built.  Classes follow asmerr.c WrXErrorPos():
 *   number < 1000 -> warning, >= 10000 -> fatal, otherwise error.
 */
#include "stdinc.h"
#include "datatypes.h"
#include "errmsg.h"
#include "asmerr.h"
#include "asmdef.h"
#include "diag.h"

int diag_cnt, diag_errs, diag_warns, diag_fatals;
int diag_last;
int diag_nums[DIAG_MAX];

static void rec(tErrorNum Num)
{
  if (diag_cnt < DIAG_MAX)
    diag_nums[diag_cnt] = (int)Num;
  diag_cnt++;
  diag_last = (int)Num;
  if ((int)Num < 1000) diag_warns++;
  else if ((int)Num >= 10000) diag_fatals++;
  else diag_errs++;
}

void diag_reset(void)
{
  diag_cnt = diag_errs = diag_warns = diag_fatals = 0;
  diag_last = 0;
}

int diag_has(int num)
{
  int i;
  for (i = 0; i < diag_cnt && i < DIAG_MAX; i++)
    if (diag_nums[i] == num) return 1;
  return 0;
}

void WrError(tErrorNum Num) { rec(Num); }
void WrXError(tErrorNum Num, char const* pExtError) { (void)pExtError; rec(Num); }
void WrXErrorPos(tErrorNum Num, char const* pExtError, const struct sLineComp* pLineComp)
{ (void)pExtError; (void)pLineComp; rec(Num); }
void WrStrErrorPos(tErrorNum Num, const struct sStrComp* pStrComp) { (void)pStrComp; rec(Num); }

#ifndef DIAG_NO_CHK
Boolean ChkRange(LargeInt Value, LargeInt Min, LargeInt Max)
{
  if (Value < Min) { rec(ErrNum_UnderRange); return False; }
  if (Value > Max) { rec(ErrNum_OverRange); return False; }
  return True;
}

Boolean ChkArgCntExtPos(int ThisCnt, int MinCnt, int MaxCnt, const struct sLineComp* pComp)
{
  (void)pComp;
  if ((ThisCnt < MinCnt) || (ThisCnt > MaxCnt)) { rec(ErrNum_WrongArgCnt); return False; }
  return True;
}

Boolean ChkArgCntExtEitherOr(int ThisCnt, int EitherCnt, int OrCnt)
{
  if ((ThisCnt != EitherCnt) && (ThisCnt != OrCnt)) { rec(ErrNum_WrongArgCnt); return False; }
  return True;
}
#endif
