/* insttab.h -- list contract for asmitree.c's instruction hash table: the code generator's real
 * InitFields() runs under symbolic execution against AddInstTable() (records name/index/handler),
 * LookupInstTable() is a linear search that calls the recorded handler with the recorded index.
 * (asmitree.c itself: hash table on the heap, does not finish under symex -- measured.)
 */
#ifndef INSTTAB_H
#define INSTTAB_H
#include "asmitree.h"
#ifndef IT_MAX
#define IT_MAX 256
#endif
static struct { const char* name; Word index; InstProc proc; } it_ent[IT_MAX];
static int it_n, it_dup;
static TInstTable it_dummy;
PInstTable CreateInstTable(int TableSize) { (void)TableSize; it_n = 0; return &it_dummy; }
void DestroyInstTable(PInstTable tab) { (void)tab; it_n = 0; }
void AddInstTable(PInstTable tab, char const* Name, Word Index, InstProc Proc)
{ (void)tab; if (it_n < IT_MAX) { it_ent[it_n].name = Name; it_ent[it_n].index = Index; it_ent[it_n].proc = Proc; } it_n++; }
Boolean LookupInstTable(PInstTable tab, char const* Name)
{
  int i; (void)tab;
  for (i = 0; i < IT_MAX; i++)
    if (i < it_n && !strcmp(it_ent[i].name, Name)) { it_ent[i].proc(it_ent[i].index); return True; }
  return False;
}
#endif
