/* cfbuild.h -- builds a well-formed AS code file (doc/file-formats.md) from symbolic
 * record fields into a byte array.  Used by the tool harnesses (C05/C06/C07).
 *
 *   magic $1489 (LE) ; records ; $00 "AS"
 *   kind 0: $81 cpu seg gran start32 len16 data      (long data record)
 *   kind 1: cpu(<$80) start32 len16 data             (short form: segment CODE, default granularity)
 *   kind 2: $80 entry32                              (entry address record)
 *   kind 3: (record absent)
 *   kind 4: $82 cpu seg gran start32 len16 data      (data record announcing relocation info; tools skip it)
 */
#ifndef CFBUILD_H
#define CFBUILD_H
#ifndef CF_R
#define CF_R 2
#endif
#ifndef CF_L
#define CF_L 6
#endif
#define CF_CAP (2 + CF_R * (10 + CF_L) + 3)

unsigned char in_rkind[CF_R], in_rcpu[CF_R], in_rseg[CF_R], in_rgran[CF_R];
unsigned in_rstart[CF_R];
unsigned short in_rlen[CF_R];
unsigned char in_rdata[CF_R * CF_L];

static unsigned char cf_buf[CF_CAP];
static long cf_size;
static long cf_payload_off[CF_R];

static void cf_load(void)
{
  LOADA(in_rkind, CF_R); LOADA(in_rcpu, CF_R); LOADA(in_rseg, CF_R); LOADA(in_rgran, CF_R);
  LOADA(in_rstart, CF_R); LOADA(in_rlen, CF_R); LOADA(in_rdata, CF_R * CF_L);
}

static void cf_put(unsigned char b) { cf_buf[cf_size++] = b; }
static void cf_put32(unsigned v) { cf_put(v & 0xff); cf_put((v >> 8) & 0xff); cf_put((v >> 16) & 0xff); cf_put((v >> 24) & 0xff); }

static void cf_build(void)
{
  int r; unsigned j;
  cf_size = 0;
  cf_put(0x89); cf_put(0x14);
  for (r = 0; r < CF_R; r++)
  {
    cf_payload_off[r] = -1;
    switch (in_rkind[r])
    {
      case 4:
        cf_put(0x82); cf_put(in_rcpu[r]); cf_put(in_rseg[r]); cf_put(in_rgran[r]);
        goto body;
      case 0:
        cf_put(0x81); cf_put(in_rcpu[r]); cf_put(in_rseg[r]); cf_put(in_rgran[r]);
        goto body;
      case 1:
        cf_put(in_rcpu[r]);
      body:
        cf_put32(in_rstart[r]);
        cf_put(in_rlen[r] & 0xff); cf_put(in_rlen[r] >> 8);
        cf_payload_off[r] = cf_size;
        for (j = 0; j < CF_L; j++) if (j < in_rlen[r]) cf_put(in_rdata[r * CF_L + j]);
        break;
      case 2:
        cf_put(0x80); cf_put32(in_rstart[r]);
        break;
      default:
        break;
    }
  }
  cf_put(0x00); cf_put('A'); cf_put('S');
}
#endif
