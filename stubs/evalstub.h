/* evalstub.h -- contract evaluator for operand expressions in code-generator harnesses:
 * argument k of the current statement evaluates to the arbitrary 64-bit value ev_val[k];
 * the documented range of the requested integer type is enforced as asmpars.c does for
 * resolved values: out of range -> error ErrNum_OverRange/UnderRange, OK = False.
 * Ranges (AS convention): UIntN 0..2^N-1, SIntN -2^(N-1)..2^(N-1)-1, IntN -2^(N-1)..2^N-1.
 */
#ifndef EVALSTUB_H
#define EVALSTUB_H
static LargeInt ev_val[4];
static tSymbolFlags ev_flags[4];
static int ev_arg_index(const struct sStrComp* p) { int k = (int)(p - ArgStr); return (k >= 0 && k < 4) ? k : 0; }

static int ev_range(IntType t, LargeInt* lo, LargeInt* hi);   /* harness supplies the types it uses */

static LargeInt ev_eval(const struct sStrComp* pExpr, IntType Type, Boolean* pOK, tSymbolFlags* pFlags)
{
  int k = ev_arg_index(pExpr); LargeInt lo, hi, v = ev_val[k];
  if (pFlags) *pFlags = ev_flags[k];
  if (!ev_range(Type, &lo, &hi)) { CHECK(0, "harness: integer type without a modelled range"); *pOK = False; return 0; }
  if (v < lo) { WrError(ErrNum_UnderRange); *pOK = False; return 0; }
  if (v > hi) { WrError(ErrNum_OverRange); *pOK = False; return 0; }
  *pOK = True;
  return v;
}
LargeInt EvalStrIntExpression(const struct sStrComp* pExpr, IntType Type, Boolean* pResult) { return ev_eval(pExpr, Type, pResult, NULL); }
LargeInt EvalStrIntExpressionWithFlags(const struct sStrComp* pExpr, IntType Type, Boolean* pResult, tSymbolFlags* pFlags) { return ev_eval(pExpr, Type, pResult, pFlags); }
LargeInt EvalStrIntExpressionWithResult(const struct sStrComp* pExpr, IntType Type, struct sEvalResult* pResult)
{
  Boolean ok; tSymbolFlags fl; LargeInt v = ev_eval(pExpr, Type, &ok, &fl);
  pResult->OK = ok; pResult->Flags = fl; pResult->AddrSpaceMask = 0; pResult->DataSize = eSymbolSizeUnknown;
  return v;
}
#endif
