/* vfile.h -- memory-file model of stdio for the repository's file I/O.
 *
 * Include AFTER <stdio.h>; redirects fopen/fread/fwrite/fseek/ftell/... of the
 * code that follows (TU inclusion of the repo sources) to the model.
 *
 * Kinds of file:
 *   VF_READ   input backed by a byte array (symbolic content, stated max size)
 *   VF_WIT    output without storage: position/size plus ONE witness cell at the
 *             offset wit_off (symbolic in the harness).  Asserting a fact about the
 *             byte at an arbitrary offset is asserting it for every offset.
 *   VF_ARRAY  output backed by a small array (conservation checks on whole records)
 *   VF_EVENT  output forwarded byte-wise to vf_event() (text monitors)
 *
 * Contract assumed of the real stdio: fwrite/fread transfer the requested bytes
 * (short only at end of file), fseek within [0, size] succeeds, no I/O errors.
 */
#ifndef VFILE_H
#define VFILE_H
#include <stdio.h>
#include <stdarg.h>
#include <string.h>

enum { VF_CLOSED = 0, VF_READ, VF_WIT, VF_ARRAY, VF_EVENT };

typedef struct vfile {
  int kind;
  long pos, size;
  unsigned char* data; long cap;
  long wit_off; int wit_set; unsigned char wit_val;
  unsigned long nwrite_calls, nbytes_written;
  int eof, was_closed, oob;
} VFILE;

/* harness hooks */
static VFILE* vf_open_hook(const char* name, const char* mode);
#ifdef VF_USE_EVENTS
static void vf_event(VFILE* f, int ch);
#endif

#define VF(f) ((VFILE*)(void*)(f))

static FILE* vf_fopen(const char* name, const char* mode)
{
  VFILE* v = vf_open_hook(name, mode);
  return (FILE*)(void*)v;
}

/* concrete, distinct handles for the standard streams (left as nondet externals they may alias a model file) */
static VFILE vf_stdout_obj, vf_stderr_obj;
#undef stdout
#undef stderr
#define stdout ((FILE*)(void*)&vf_stdout_obj)
#define stderr ((FILE*)(void*)&vf_stderr_obj)
#define VF_STD(f) ((f) == stdout || (f) == stderr)
static int vf_fclose(FILE* f) { if (VF_STD(f)) return 0; VF(f)->was_closed++; return 0; }
static int vf_fflush(FILE* f) { (void)f; return 0; }
static long vf_ftell(FILE* f) { return VF(f)->pos; }
static int vf_feof(FILE* f) { return VF(f)->eof; }
static int vf_ferror(FILE* f) { (void)f; return 0; }
static void vf_rewind(FILE* f) { VF(f)->pos = 0; VF(f)->eof = 0; }

static int vf_fseek(FILE* f, long off, int whence)
{
  VFILE* v = VF(f);
  long np = (whence == SEEK_SET) ? off : (whence == SEEK_CUR) ? v->pos + off : v->size + off;
  if (np < 0) return -1;
  v->pos = np; v->eof = 0;
  return 0;
}

static size_t vf_fwrite(const void* ptr, size_t sz, size_t n, FILE* f)
{
  VFILE* v = VF(f);
  size_t total = sz * n, i;
  const unsigned char* p = (const unsigned char*)ptr;
  if (VF_STD(f)) return n;
  v->nwrite_calls++; v->nbytes_written += total;
  if (total == 0) return n;
  switch (v->kind)
  {
    case VF_WIT:
      if (v->pos > v->size && v->wit_off >= v->size && v->wit_off < v->pos) { v->wit_val = 0; v->wit_set = 1; }  /* hole */
      if (v->wit_off >= v->pos && v->wit_off < v->pos + (long)total) { v->wit_val = p[v->wit_off - v->pos]; v->wit_set = 1; }
      v->pos += (long)total;
      break;
    case VF_ARRAY:
      for (i = 0; i < total; i++)
      {
        if (v->pos < v->cap) v->data[v->pos] = p[i]; else v->oob = 1;
        v->pos++;
      }
      break;
#ifdef VF_USE_EVENTS
    case VF_EVENT:
      for (i = 0; i < total; i++) vf_event(v, p[i]);
      v->pos += (long)total;
      break;
#endif
    default:
      v->oob = 1;
      break;
  }
  if (v->pos > v->size) v->size = v->pos;
  return n;
}

static size_t vf_fread(void* ptr, size_t sz, size_t n, FILE* f)
{
  VFILE* v = VF(f);
  size_t total = sz * n, i, got = 0;
  unsigned char* p = (unsigned char*)ptr;
  if (v->kind != VF_READ && v->kind != VF_ARRAY) { v->oob = 1; return 0; }
  for (i = 0; i < total; i++)
  {
    if (v->pos >= v->size) { v->eof = 1; break; }
    p[i] = v->data[v->pos++];
    got++;
  }
  return sz ? got / sz : 0;
}

static int vf_fgetc(FILE* f)
{
  VFILE* v = VF(f);
  if (v->pos >= v->size) { v->eof = 1; return EOF; }
  return v->data[v->pos++];
}

static char* vf_fgets(char* buf, int n, FILE* f)
{
  VFILE* v = VF(f);
  int i = 0;
  if (n <= 0) return NULL;
  while (i < n - 1 && v->pos < v->size)
  {
    unsigned char c = v->data[v->pos++];
    buf[i++] = (char)c;
    if (c == '\n') break;
  }
  if (i == 0) { v->eof = 1; return NULL; }
  buf[i] = 0;
  return buf;
}

static int vf_fputc(int c, FILE* f)
{
  unsigned char b = (unsigned char)c;
  vf_fwrite(&b, 1, 1, f);
  return c;
}

static int vf_fputs(const char* s, FILE* f)
{
  size_t l = 0;
  while (s[l]) l++;
  vf_fwrite(s, 1, l, f);
  return 0;
}

#undef fopen
#undef fclose
#undef fflush
#undef ftell
#undef fseek
#undef fwrite
#undef fread
#undef fgetc
#undef fgets
#undef fputc
#undef fputs
#undef feof
#undef ferror
#undef rewind
#define fopen vf_fopen
#define fclose vf_fclose
#define fflush vf_fflush
#define ftell vf_ftell
#define fseek vf_fseek
#define fwrite vf_fwrite
#define fread vf_fread
#define fgetc vf_fgetc
#define fgets vf_fgets
#define fputc vf_fputc
#define fputs vf_fputs
#define feof vf_feof
#define ferror vf_ferror
#define rewind vf_rewind

#endif
