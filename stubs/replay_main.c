#include <stdio.h>
void harness(void);
int main(void)
{
  harness();
  puts("REPLAY-END");
  return 0;
}
