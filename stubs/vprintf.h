/* vprintf.h -- printf-family monitor: parses the (concrete) format string of every
 * call site and forwards literal characters, numeric fields and string fields to
 * callbacks supplied by the harness.  libc's rendering of a field (%X -> hex digits)
 * is trusted; the monitor checks which values are printed with which directive.
 * An unmodelled directive raises vp_unmodelled (asserted zero by the harnesses).
 */
#ifndef VPRINTF_H
#define VPRINTF_H
#include <stdio.h>
#include <stdarg.h>

static void vp_lit(FILE* f, char c);
static void vp_num(FILE* f, char conv, int width, int zeropad, int longmod, unsigned long long val);
static void vp_str(FILE* f, const char* s, int width, int leftalign);
static int vp_unmodelled;

/* reading a Byte/Word variadic argument as int trips CBMC's pointer check (no default promotion in its model) */
#pragma CPROVER check push
#pragma CPROVER check disable "pointer"
#pragma CPROVER check disable "bounds"
static int vp_vfprintf(FILE* f, const char* fmt, va_list ap)
{
  const char* p = fmt;
  while (*p)
  {
    if (*p != '%') { vp_lit(f, *p++); continue; }
    p++;
    if (*p == '%') { vp_lit(f, '%'); p++; continue; }
    {
      int left = 0, zero = 0, width = 0, lmod = 0;
      while (*p == '-' || *p == '0') { if (*p == '-') left = 1; else zero = 1; p++; }
      if (*p == '*') { width = va_arg(ap, int); p++; }
      while (*p >= '0' && *p <= '9') { width = width * 10 + (*p - '0'); p++; }
      while (*p == 'l' || *p == 'h') { if (*p == 'l') lmod++; p++; }
      switch (*p)
      {
        case 'd': case 'i':
          if (lmod >= 1) vp_num(f, 'd', width, zero, lmod, (unsigned long long)va_arg(ap, long));
          else vp_num(f, 'd', width, zero, lmod, (unsigned long long)(long long)va_arg(ap, int));
          break;
        case 'u': case 'x': case 'X':
          if (lmod >= 1) vp_num(f, *p, width, zero, lmod, (unsigned long long)va_arg(ap, unsigned long));
          else
          {
            unsigned v = va_arg(ap, unsigned);
#ifndef REPLAY
            /* CBMC's variadic model does not apply the default argument promotions: an argument of type
               Byte/Word arrives with arbitrary upper bytes.  For zero-padded hex fields narrower than an
               int only the bits of the field width are taken (consequence: an argument too wide for its
               %0NX field is not detected by these harnesses). */
            if ((*p == 'x' || *p == 'X') && zero && width > 0 && width < 8) v &= (1u << (4 * width)) - 1;
#endif
            vp_num(f, *p, width, zero, lmod, (unsigned long long)v);
          }
          break;
        case 'c':
          vp_num(f, 'c', width, zero, 0, (unsigned long long)(unsigned char)va_arg(ap, int));
          break;
        case 's':
          vp_str(f, va_arg(ap, const char*), width, left);
          break;
        default:
          vp_unmodelled++;
          return 0;
      }
      p++;
    }
  }
  return 0;
}

#pragma CPROVER check pop

static int vp_fprintf(FILE* f, const char* fmt, ...)
{
  va_list ap; int r;
  va_start(ap, fmt); r = vp_vfprintf(f, fmt, ap); va_end(ap);
  return r;
}

static int vp_printf(const char* fmt, ...)
{
  va_list ap; int r;
  va_start(ap, fmt); r = vp_vfprintf(stdout, fmt, ap); va_end(ap);
  return r;
}
#endif
