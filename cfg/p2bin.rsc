#ifndef _REPO__BUILD_P_BIN_RSC
#define _REPO__BUILD_P_BIN_RSC
#define MsgId1 1789674169
#define MsgId2 1882350185
#define Num_InfoMessHead1 0
#define Num_FormatInvHeaderMsg 1
#define Num_FormatInvRecordHeaderMsg 2
#define Num_FormatInvRecordLenMsg 3
#define Num_ErrMsgNullMaskA 4
#define Num_ErrMsgNullMaskB 5
#define Num_ErrMsgInvEnvParam 6
#define Num_ErrMsgInvParam 7
#define Num_ErrMsgTargMissing 8
#define Num_ErrMsgAutoFailed 9
#define Num_ErrMsgOverlap 10
#define Num_ErrMsgProgTerm 11
#define Num_Suffix 12
#define Num_InfoMessChecksum 13
#define Num_InfoMessHead2 14
#define Num_Byte 15
#define Num_Bytes 16
#define Num_InfoMessHelp 17
#define Num_InfoMessDeducedRange 18
#define Num_WarnEmptyFile 19
#endif /* #ifndef _REPO__BUILD_P_BIN_RSC */
