#ifndef _REPO__BUILD_ALINK_RSC
#define _REPO__BUILD_ALINK_RSC
#define MsgId1 1789674168
#define MsgId2 1634494830
#define Num_InfoMessHead1 0
#define Num_FormatInvHeaderMsg 1
#define Num_FormatInvRecordHeaderMsg 2
#define Num_FormatInvRecordLenMsg 3
#define Num_ErrMsgNullMaskA 4
#define Num_ErrMsgNullMaskB 5
#define Num_ErrMsgInvEnvParam 6
#define Num_ErrMsgInvParam 7
#define Num_ErrMsgTargMissing 8
#define Num_ErrMsgAutoFailed 9
#define Num_ErrMsgOverlap 10
#define Num_ErrMsgProgTerm 11
#define Num_Suffix 12
#define Num_InfoMsgGetSyms 13
#define Num_InfoMsgOpenSrc 14
#define Num_InfoMsgReading 15
#define Num_InfoMsgLocating 16
#define Num_ErrMsgSrcMissing 17
#define Num_FormatRelocInfoMissing 18
#define Num_DoubleDefSymbol 19
#define Num_UndefSymbol 20
#define Num_SumUndefSymbol 21
#define Num_SumUndefSymbols 22
#define Num_Byte 23
#define Num_Bytes 24
#define Num_InfoMessHead2 25
#define Num_InfoMessHelp 26
#endif /* #ifndef _REPO__BUILD_ALINK_RSC */
