#ifndef _REPO__BUILD_PLIST_RSC
#define _REPO__BUILD_PLIST_RSC
#define MsgId1 1789674169
#define MsgId2 1886153075
#define Num_InfoMessHead1 0
#define Num_FormatInvHeaderMsg 1
#define Num_FormatInvRecordHeaderMsg 2
#define Num_FormatInvRecordLenMsg 3
#define Num_ErrMsgNullMaskA 4
#define Num_ErrMsgNullMaskB 5
#define Num_ErrMsgInvEnvParam 6
#define Num_ErrMsgInvParam 7
#define Num_ErrMsgTargMissing 8
#define Num_ErrMsgAutoFailed 9
#define Num_ErrMsgOverlap 10
#define Num_ErrMsgProgTerm 11
#define Num_Suffix 12
#define Num_MessFileRequest 13
#define Num_MessHeaderLine1 14
#define Num_MessHeaderLine2 15
#define Num_MessHeaderLine1F 16
#define Num_MessHeaderLine2F 17
#define Num_MessGenerator 18
#define Num_MessSum1 19
#define Num_MessSumSing 20
#define Num_MessSumPlur 21
#define Num_MessEntryPoint 22
#define Num_MessRelocInfo 23
#define Num_MessExportInfo 24
#define Num_InfoMessHead2 25
#define Num_InfoMessHelp 26
#endif /* #ifndef _REPO__BUILD_PLIST_RSC */
