#ifndef _REPO__BUILD_CMDARG_RSC
#define _REPO__BUILD_CMDARG_RSC
#define MsgId1 1789674168
#define MsgId2 1668113505
#define Num_ErrMsgKeyFileNotFound 0
#define Num_ErrMsgKeyFileError 1
#define Num_ErrMsgNoKeyInFile 2
#endif /* #ifndef _REPO__BUILD_CMDARG_RSC */
