#ifndef _REPO__BUILD_TOOLS_RSC
#define _REPO__BUILD_TOOLS_RSC
#define MsgId1 1789674169
#define MsgId2 1953460076
#define Num_FormatErr1aMsg 0
#define Num_FormatErr1bMsg 1
#define Num_FormatErr2Msg 2
#define Num_IOErrAHeaderMsg 3
#define Num_IOErrBHeaderMsg 4
#define Num_ErrMsgTerminating 5
#endif /* #ifndef _REPO__BUILD_TOOLS_RSC */
