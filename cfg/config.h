/*****************************************************************************/
/* SPDX-License-Identifier: GPL-2.0-only OR GPL-3.0-only                     */
/*                                                                           */
/* Configuration macros for CMake                                            */
/*                                                                           */
/*****************************************************************************/

#ifndef CONFIG_H
#define CONFIG_H
#define LOCALE_NLS
/* #undef OS2_NLS */
/* #undef W32_NLS */
#define HAVE_UNISTD_H
#define HAVE_ENDIAN_H
#define HAVE_SYS_PARAM_H
#define ARCHPRNAME "x86_64"
#define ARCHSYSNAME "Linux"
#endif
