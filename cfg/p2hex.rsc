#ifndef _REPO__BUILD_P_HEX_RSC
#define _REPO__BUILD_P_HEX_RSC
#define MsgId1 1789674169
#define MsgId2 1882351717
#define Num_InfoMessHead1 0
#define Num_FormatInvHeaderMsg 1
#define Num_FormatInvRecordHeaderMsg 2
#define Num_FormatInvRecordLenMsg 3
#define Num_ErrMsgNullMaskA 4
#define Num_ErrMsgNullMaskB 5
#define Num_ErrMsgInvEnvParam 6
#define Num_ErrMsgInvParam 7
#define Num_ErrMsgTargMissing 8
#define Num_ErrMsgAutoFailed 9
#define Num_ErrMsgOverlap 10
#define Num_ErrMsgProgTerm 11
#define Num_Suffix 12
#define Num_DSKHeaderLine 13
#define Num_ErrMsgAdrOverflow 14
#define Num_InfoMessHead2 15
#define Num_Byte 16
#define Num_Bytes 17
#define Num_InfoMessHelp 18
#define Num_InfoMessDeducedRange 19
#define Num_WarnDOption 20
#define Num_WarnEmptyFile 21
#endif /* #ifndef _REPO__BUILD_P_HEX_RSC */
