#ifndef _REPO__BUILD_PBIND_RSC
#define _REPO__BUILD_PBIND_RSC
#define MsgId1 1789674169
#define MsgId2 1885497710
#define Num_InfoMessHead1 0
#define Num_FormatInvHeaderMsg 1
#define Num_FormatInvRecordHeaderMsg 2
#define Num_FormatInvRecordLenMsg 3
#define Num_ErrMsgNullMaskA 4
#define Num_ErrMsgNullMaskB 5
#define Num_ErrMsgInvEnvParam 6
#define Num_ErrMsgInvParam 7
#define Num_ErrMsgTargMissing 8
#define Num_ErrMsgAutoFailed 9
#define Num_ErrMsgOverlap 10
#define Num_ErrMsgProgTerm 11
#define Num_Suffix 12
#define Num_ErrMsgTargetMissing 13
#define Num_InfoMessHead2 14
#define Num_Byte 15
#define Num_Bytes 16
#define Num_InfoMessHelp 17
#endif /* #ifndef _REPO__BUILD_PBIND_RSC */
