#ifndef _REPO__BUILD_DAS_RSC
#define _REPO__BUILD_DAS_RSC
#define MsgId1 1789674168
#define MsgId2 1684108078
#define Num_ErrMsgInvParam 0
#define Num_ErrMsgInvEnvParam 1
#define Num_ErrMsgFileArgumentMissing 2
#define Num_ErrMsgInvalidNumericValue 3
#define Num_ErrMsgCannotReadBinaryFile 4
#define Num_ErrMsgCannotReadHexFile 5
#define Num_ErrMsgInvalidHexData 6
#define Num_ErrMsgHexDataChecksumError 7
#define Num_ErrMsgAddressArgumentMissing 8
#define Num_ErrMsgClosingPatentheseMissing 9
#define Num_ErrMsgInvalidEndinaness 10
#define Num_ErrMsgCannotRetrieveEntryAddressData 11
#define Num_ErrMsgSymbolArgumentMissing 12
#define Num_ErrMsgCPUArgumentMissing 13
#define Num_ErrMsgUnknownCPU 14
#define Num_KeyWaitMsg 15
#define Num_InfoMessHead1 16
#define Num_InfoMessHead2 17
#define Num_InfoMessHelp 18
#endif /* #ifndef _REPO__BUILD_DAS_RSC */
